(* Interp.v — interp1d on a strictly increasing grid: exact at every grid point, first and last
   included, linear between neighbours, undefined outside the range (C14). *)
From Coq Require Import List Bool Arith QArith Qfield Lqa Lia.
From Lekkersim Require Import InPulse.
Import ListNotations.

Lemma ceq_refl a : ceq a a. Proof. split; reflexivity. Qed.

Lemma Qle_bool_true x y : x <= y -> Qle_bool x y = true. Proof. apply Qle_bool_iff. Qed.
Lemma Qle_bool_false x y : y < x -> Qle_bool x y = false.
Proof. intros H. destruct (Qle_bool x y) eqn:E; [|reflexivity]. apply Qle_bool_iff in E. lra. Qed.

Lemma strictly_inc_cons x0 x1 r : strictly_inc (x0 :: x1 :: r) = true -> x0 < x1 /\ strictly_inc (x1 :: r) = true.
Proof.
  cbn [strictly_inc]. intros H. apply andb_true_iff in H. destruct H as [H1 H2]. split; [|exact H2].
  destruct (Qcompare x0 x1) eqn:E; try discriminate. exact E.
Qed.

(* later grid values are larger *)
Lemma strictly_inc_later xs x0 k xk : strictly_inc (x0 :: xs) = true -> nth_error xs k = Some xk -> x0 < xk.
Proof.
  revert x0 k. induction xs as [|x1 r IH]; intros x0 k H Hk; [destruct k; discriminate|].
  apply strictly_inc_cons in H. destruct H as [H1 H2]. destruct k as [|k]; simpl in Hk.
  - injection Hk as <-. exact H1.
  - pose proof (IH x1 k H2 Hk). lra.
Qed.

Lemma lerp_at x0 x1 y0 y1 t : x0 < x1 ->
  ceq (lerp x0 x1 y0 y1 ((1 - t) * x0 + t * x1)) (cadd (cscal (1 - t) y0) (cscal t y1)).
Proof.
  intros H. unfold lerp, ceq, cadd, cscal, csub; simpl. split; field; lra.
Qed.

Lemma interp1_hit x0 y0 x1 y1 r x : x0 <= x -> x <= x1 ->
  interp1 ((x0, y0) :: (x1, y1) :: r) x = Some (lerp x0 x1 y0 y1 x).
Proof. intros H1 H2. cbn [interp1]. rewrite (Qle_bool_true _ _ H1), (Qle_bool_true _ _ H2). reflexivity. Qed.

Lemma interp1_skip x0 y0 x1 y1 r x : x1 < x ->
  interp1 ((x0, y0) :: (x1, y1) :: r) x = interp1 ((x1, y1) :: r) x.
Proof. intros H. cbn [interp1]. rewrite (Qle_bool_false _ _ H), andb_false_r. reflexivity. Qed.

Lemma lerp_compat x0 x1 y0 y1 x x' : x == x' -> ceq (lerp x0 x1 y0 y1 x) (lerp x0 x1 y0 y1 x').
Proof. intros E. unfold lerp, ceq, cadd, cscal, csub; simpl. rewrite E. split; reflexivity. Qed.

Lemma neighbours_lt (l : list (Q * C)) k xk yk xk1 yk1 :
  strictly_inc (map fst l) = true -> nth_error l k = Some (xk, yk) -> nth_error l (S k) = Some (xk1, yk1) ->
  xk < xk1.
Proof.
  revert k. induction l as [|[a b] l IHl]; intros k Hs Hk Hk1; [destruct k; discriminate|].
  destruct k as [|k]; simpl in Hk.
  - injection Hk as <- <-. simpl in Hk1. cbn [map fst] in Hs.
    apply (strictly_inc_later (map fst l) a 0%nat xk1 Hs).
    destruct l as [|[c d] l']; simpl in Hk1 |- *; [discriminate|]. injection Hk1 as <- <-. reflexivity.
  - cbn [map fst] in Hs. destruct l as [|[c d] l']; [destruct k; discriminate|].
    cbn [map fst] in Hs. apply strictly_inc_cons in Hs. destruct Hs as [_ Hs].
    apply (IHl k); [exact Hs | exact Hk | exact Hk1].
Qed.

(* between two neighbouring grid points the value is the linear combination of their values;
   t = 0 and t = 1 are the grid points themselves *)
Theorem interp_between pts k xk yk xk1 yk1 t :
  strictly_inc (map fst pts) = true ->
  nth_error pts k = Some (xk, yk) -> nth_error pts (S k) = Some (xk1, yk1) ->
  0 <= t -> t <= 1 ->
  exists v, interp1 pts ((1 - t) * xk + t * xk1) = Some v /\
            ceq v (cadd (cscal (1 - t) yk) (cscal t yk1)).
Proof.
  revert k. induction pts as [|[x0 y0] r IH]; intros k Hs Hk Hk1 Ht0 Ht1; [destruct k; discriminate|].
  destruct r as [|[x1 y1] r']; [destruct k; simpl in Hk1; [discriminate | destruct k; discriminate]|].
  cbn [map fst] in Hs. pose proof (strictly_inc_cons _ _ _ Hs) as [H01 Hs'].
  destruct k as [|k].
  - simpl in Hk, Hk1. injection Hk as <- <-. injection Hk1 as <- <-.
    exists (lerp x0 x1 y0 y1 ((1 - t) * x0 + t * x1)). split; [|apply lerp_at; exact H01].
    apply interp1_hit; nra.
  - simpl in Hk. change (nth_error ((x1, y1) :: r') (S k) = Some (xk1, yk1)) in Hk1.
    assert (Hlt : xk < xk1) by (apply (neighbours_lt ((x1, y1) :: r') k xk yk xk1 yk1); assumption).
    assert (Hge : x1 <= xk).
    { destruct k as [|k]; simpl in Hk; [injection Hk as <- <-; lra|].
      assert (H : x1 < xk); [|lra].
      apply (strictly_inc_later (map fst r') x1 k xk Hs').
      rewrite nth_error_map, Hk. reflexivity. }
    set (x := (1 - t) * xk + t * xk1).
    assert (Hx : xk <= x) by (unfold x; nra).
    destruct (Qlt_le_dec x1 x) as [Hgt|Hle].
    + rewrite interp1_skip by exact Hgt. apply (IH k); assumption.
    + (* x = x1 = xk, hence k = 0 in the tail and t = 0: the first segment's right end *)
      assert (Ex : x == x1) by lra. assert (Exk : xk == x1) by lra.
      assert (Et : t == 0) by (unfold x in Ex; nra).
      assert (Ek : k = 0%nat).
      { destruct k as [|k]; [reflexivity|]. exfalso. simpl in Hk.
        assert (H : x1 < xk); [|lra].
        apply (strictly_inc_later (map fst r') x1 k xk Hs'). rewrite nth_error_map, Hk. reflexivity. }
      subst k. simpl in Hk. injection Hk as E1 E2. subst yk.
      exists (lerp x0 x1 y0 y1 x). split; [apply interp1_hit; lra|].
      unfold lerp, ceq, cadd, cscal, csub; simpl. rewrite Et, Ex. split; field; lra.
Qed.

Lemma interp1_compat pts x' x v : x' == x -> interp1 pts x' = Some v ->
  exists v', interp1 pts x = Some v' /\ ceq v' v.
Proof.
  intros E. induction pts as [|[x0 y0] r IH]; [discriminate|]. destruct r as [|[x1 y1] r']; [discriminate|].
  cbn [interp1]. rewrite E. destruct (Qle_bool x0 x && Qle_bool x x1).
  - intros H. injection H as <-. eexists. split; [reflexivity|]. apply lerp_compat. symmetry. exact E.
  - exact IH.
Qed.

(* every grid point — the first and the last included — evaluates to the stored value *)
Theorem interp_grid pts k xk yk :
  strictly_inc (map fst pts) = true -> (2 <= List.length pts)%nat ->
  nth_error pts k = Some (xk, yk) ->
  exists v, interp1 pts xk = Some v /\ ceq v yk.
Proof.
  intros Hs Hlen Hk.
  destruct (nth_error pts (S k)) as [[xk1 yk1]|] eqn:Hk1.
  - destruct (interp_between pts k xk yk xk1 yk1 0 Hs Hk Hk1 ltac:(lra) ltac:(lra)) as (v & Hv & Hc).
    assert (E : (1 - 0) * xk + 0 * xk1 == xk) by ring.
    destruct (interp1_compat pts _ xk v E Hv) as (v' & Hv' & Hc').
 exists v'. split; [exact Hv'|].
    destruct Hc as [C1 C2], Hc' as [D1 D2]. unfold cadd, cscal in C1, C2. simpl in C1, C2.
    split; [rewrite D1, C1 | rewrite D2, C2]; ring.
  - (* the last point: right end of the last segment *)
    destruct k as [|k].
    { exfalso. apply nth_error_None in Hk1. lia. }
    destruct (nth_error pts k) as [[xp yp]|] eqn:Hp.
    2:{ exfalso. apply nth_error_None in Hp. assert (nth_error pts (S k) <> None) by congruence.
        apply nth_error_Some in H. lia. }
    destruct (interp_between pts k xp yp xk yk 1 Hs Hp Hk ltac:(lra) ltac:(lra)) as (v & Hv & Hc).
    assert (E : (1 - 1) * xp + 1 * xk == xk) by ring.
    destruct (interp1_compat pts _ xk v E Hv) as (v' & Hv' & Hc').
 exists v'. split; [exact Hv'|].
    destruct Hc as [C1 C2], Hc' as [D1 D2]. unfold cadd, cscal in C1, C2. simpl in C1, C2.
    split; [rewrite D1, C1 | rewrite D2, C2]; ring.
Qed.

(* outside the grid the model is not evaluable *)
Theorem interp_outside pts x :
  (forall p, In p pts -> x < fst p) \/ (forall p, In p pts -> fst p < x) -> interp1 pts x = None.
Proof.
  induction pts as [|[x0 y0] r IH]; intros H; [reflexivity|].
  destruct r as [|[x1 y1] r']; [reflexivity|]. cbn [interp1].
  assert (E : Qle_bool x0 x && Qle_bool x x1 = false).
  { destruct H as [H|H].
    - rewrite (Qle_bool_false x0 x); [reflexivity|]. apply (H (x0, y0)). left. reflexivity.
    - rewrite (Qle_bool_false x x1), andb_false_r; [reflexivity|]. apply (H (x1, y1)). right. left. reflexivity. }
  rewrite E. apply IH. destruct H as [H|H]; [left|right]; intros p Hp; apply H; right; exact Hp.
Qed.
