(* Scale.v — size-independence in exact arithmetic (C20): the loop performs exactly n-1 merges,
   and closed forms for cascades of any length, obtained from soundness by exhibiting the wave
   solution (no reasoning about the elimination algorithm is needed). *)
From Coq Require Import List Arith Lia Bool Field Ring Setoid Morphisms.
From Lekkersim Require Import Field Matrix Base Kernel KernelProofs Network Solve SolveProofs SolveComplete.
Import ListNotations.

Section Scale.
Variable K : cfield.
Hypothesis KL : cfield_laws K.

Notation "0" := (f0 K).
Notation "1" := (f1 K).
Infix "+" := (fadd K).
Infix "*" := (fmul K).
Infix "==" := (feq K) (at level 70).

Add Field Kfield7 : (F_ft K KL) (setoid (feq_equiv K KL) (F_ext K KL)).

(* ---- the loop: each step removes two live structures and adds one ---- *)
Lemma merge_step_length cs (live live' : list (lst K)) ij :
  merge_step cs live ij = Ok live' -> S (length live') = length live.
Proof.
  unfold merge_step. destruct ij as [i j]. intros H.
  destruct (Nat.eqb i j || negb (i <? length live) || negb (j <? length live)) eqn:E; [discriminate|].
  apply orb_false_iff in E. destruct E as [E Ej]. apply orb_false_iff in E. destruct E as [Eij Ei].
  apply negb_false_iff, Nat.ltb_lt in Ei. apply negb_false_iff, Nat.ltb_lt in Ej.
  apply Nat.eqb_neq in Eij.
  apply bind_ok in H. destruct H as (C & _ & H). injection H as <-.
  rewrite app_length. simpl.
  rewrite length_remove_nth.
  - rewrite length_remove_nth by (destruct (Nat.max_spec i j); lia). lia.
  - rewrite length_remove_nth by (destruct (Nat.max_spec i j); lia).
    destruct (Nat.min_spec i j); destruct (Nat.max_spec i j); lia.
Qed.

Theorem solve_sched_length cs sched : forall (live live' : list (lst K)),
  solve_sched cs live sched = Ok live' -> (length live' + length sched = length live)%nat.
Proof.
  induction sched as [|ij rest IH]; intros live live' H; simpl in H.
  - injection H as <-. simpl. lia.
  - apply bind_ok in H. destruct H as (live1 & H1 & H2).
    apply merge_step_length in H1. apply IH in H2. simpl. lia.
Qed.

(* a successful solve of n >= 1 components performed exactly n - 1 merges *)
Theorem loop_terminates (net : netlist K) sched T :
  solve net sched = Ok T -> (length sched + 1 = length (comps net))%nat.
Proof.
  intros H. apply (solve_inv K) in H. destruct H as (_ & Hs & _).
  apply solve_sched_length in Hs. simpl in Hs. lia.
Qed.

Lemma seq_sched_length n : length (seq_sched n) = (n - 1)%nat.
Proof. unfold seq_sched. apply repeat_length. Qed.

(* ---- cascade of n reflection-free two-ports with transmissions t_0 ... t_(n-1) ---- *)
Definition twoport (t : K) : mx K :=
  fun i j => match i, j with O, S O => t | S O, O => t | _, _ => 0 end.

Definition cascade (ts : list K) : netlist K :=
  {| comps := map (fun it => lst_of_comp {| c_id := fst it; c_n := 2; c_S := twoport (snd it) |})
                  (combine (seq 0 (length ts)) ts);
     conns := map (fun i => ((i, 1), (S i, 0))%nat) (seq 0 (length ts - 1));
     expo := [(0, 0); (length ts - 1, 1)]%nat |}.

Fixpoint prodk (ts : list K) (k : nat) {struct k} : K :=   (* t_0 * ... * t_(k-1) *)
  match k, ts with
  | O, _ => 1
  | S k', [] => 1
  | S k', t :: r => t * prodk r k'
  end.

Lemma prodk_S ts k d : (k < length ts)%nat -> prodk ts (S k) == prodk ts k * nth k ts d.
Proof.
  revert k. induction ts as [|t r IH]; intros k H; simpl in H; [lia|].
  destruct k as [|k].
  - change (t * prodk r 0 == 1 * t). change (prodk r 0) with 1. ring.
  - change (t * prodk r (S k) == (t * prodk r k) * nth k r d). rewrite (IH k) by lia. ring.
Qed.

(* the forward wave excited at the input *)
Definition casc_a (ts : list K) : waves K :=
  fun p => match snd p with O => prodk ts (fst p) | _ => 0 end.
Definition casc_b (ts : list K) : waves K :=
  fun p => match snd p with S O => prodk ts (S (fst p)) | _ => 0 end.
Definition casc_u : waves K := fun p => match p with (O, O) => 1 | _ => 0 end.

Lemma cascade_comp_In ts L : In L (comps (cascade ts)) ->
  exists i, (i < length ts)%nat /\
    L = lst_of_comp {| c_id := i; c_n := 2; c_S := twoport (nth i ts 0) |}.
Proof.
  unfold cascade; cbn [comps]. intros H. apply in_map_iff in H. destruct H as ([i t] & <- & Hin).
  apply (In_nth _ _ (O, 0)) in Hin. destruct Hin as (k & Hk & Ek).
  rewrite combine_length, seq_length, Nat.min_id in Hk.
  rewrite combine_nth in Ek by (rewrite seq_length; reflexivity).
  rewrite seq_nth in Ek by exact Hk. injection Ek as <- <-. exists k. split; [exact Hk|]. reflexivity.
Qed.

Lemma cascade_waves ts : ts <> [] -> wave_solution (cascade ts) casc_u (casc_a ts) (casc_b ts).
Proof.
  intros Hne. assert (Hlen : (0 < length ts)%nat) by (destruct ts; [congruence|simpl; lia]).
  split; [|split].
  - intros L HL. destruct (cascade_comp_In ts L HL) as (i & Hi & ->).
    unfold Sem; cbn [lst_of_comp l_pins l_S comp_pins c_id c_n c_S]. simpl.
    intros k Hk. destruct k as [|[|k]]; [| |lia]; simpl; unfold casc_a, casc_b; simpl.
    + ring.
    + rewrite (prodk_S ts i 0 Hi). ring.
  - intros x y Hin. unfold cascade in Hin; cbn [conns] in Hin. apply in_map_iff in Hin.
    destruct Hin as (i & E & Hi). injection E as <- <-. unfold casc_a, casc_b; simpl. split; reflexivity.
  - intros x Hx Hn. unfold cascade; cbn [expo]. unfold ext, casc_a, casc_u. simpl.
    destruct x as [i k]. simpl.
    (* x is a pin of some component *)
    unfold allpins in Hx. apply in_concat in Hx. destruct Hx as (l & Hl & Hx).
    apply in_map_iff in Hl. destruct Hl as (L & <- & HL).
    destruct (cascade_comp_In ts L HL) as (i' & Hi' & ->).
    cbn [lst_of_comp l_pins comp_pins c_id c_n] in Hx. simpl in Hx.
    destruct Hx as [E|[E|[]]]; injection E as <- <-; simpl.
    + (* an input pin (i', 0): free only if i' = 0 *)
      destruct i' as [|i']; simpl; [reflexivity|].
      exfalso. assert (Hc : In ((i', 1), (S i', 0))%nat (conns (cascade ts))).
      { unfold cascade; cbn [conns]. apply in_map_iff. exists i'. split; [reflexivity|]. apply in_seq. lia. }
      destruct (partner_None _ _ Hn _ Hc) as [_ H2]. apply H2. reflexivity.
    + (* an output pin (i', 1): carries no incoming wave, whether exposed or not *)
      destruct (_ || _); [destruct i'|]; reflexivity.
Qed.

(* for EVERY length n >= 1 and every schedule: transmission = product, reflection = 0 *)
Theorem cascade_closed_form ts sched T :
  ts <> [] -> solve (cascade ts) sched = Ok T ->
  In (0, 0)%nat (l_pins T) -> In (length ts - 1, 1)%nat (l_pins T) ->
  coeff T (length ts - 1, 1)%nat (0, 0)%nat == prodk ts (length ts) /\
  coeff T (0, 0)%nat (0, 0)%nat == 0.
Proof.
  intros Hne H Hin Hout.
  destruct (solve_pins K _ _ T H) as [NT _].
  pose proof (solve_sound K KL _ _ T H casc_u (casc_a ts) (casc_b ts) (cascade_waves ts Hne)) as R.
  assert (col : forall p, In p (l_pins T) -> casc_b ts p == coeff T p (0, 0)%nat).
  { intros p Hp. pose proof (R (pos p (l_pins T)) (pos_lt _ _ Hp)) as E.
    rewrite nth_pos in E by exact Hp. rewrite E. unfold coeff.
    rewrite (bigsum_ext K KL _ _ (fun j => l_S T (pos p (l_pins T)) j
                                  * (if Nat.eqb j (pos (0, 0)%nat (l_pins T)) then 1 else 0))).
    2:{ intros j Hj. unfold cascade; cbn [expo]. unfold ext, casc_u.
        destruct (Nat.eqb_spec j (pos (0, 0)%nat (l_pins T))) as [->|Hj'].
        - rewrite nth_pos by exact Hin. simpl. reflexivity.
        - assert (Hq : nth j (l_pins T) dpin <> (0, 0)%nat).
          { intros Eq. apply Hj'. rewrite <- Eq. rewrite pos_nth by assumption. reflexivity. }
          destruct (nth j (l_pins T) dpin) as [[|i] [|k]]; try congruence;
            destruct (mem _ _); reflexivity. }
    apply (bigsum_delta_r K KL). apply pos_lt. exact Hin. }
  split.
  - rewrite <- (col _ Hout). unfold casc_b. cbn [fst snd].
    replace (S (length ts - 1)) with (length ts) by (destruct ts; [congruence|simpl; lia]). reflexivity.
  - rewrite <- (col _ Hin). unfold casc_b. simpl. reflexivity.
Qed.

End Scale.
