(* Prune.v — Solver.prune (sol.py:703-724): remove every placed empty model and every placed
   solver that (recursively) contains nothing else; report whether the solver itself is empty (C19). *)
From Coq Require Import List Arith Lia Bool.
From Lekkersim Require Import Field Matrix Base Network Solve Hier.
Import ListNotations.

Section Prune.
Variable K : cfield.

Fixpoint dead (c : circ K) : bool :=
  match c with
  | Leaf L => match l_pins L with [] => true | _ => false end     (* Model.is_empty *)
  | Sub subs _ _ => forallb dead subs                              (* Solver.prune() returned True *)
  end.

Fixpoint prune (c : circ K) : circ K :=
  match c with
  | Leaf L => Leaf L
  | Sub subs cs ex =>
      Sub ((fix go (l : list (circ K)) : list (circ K) :=
              match l with
              | [] => []
              | c' :: r => if dead c' then go r else prune c' :: go r
              end) subs) cs ex
  end.

Fixpoint prune_list (l : list (circ K)) : list (circ K) :=
  match l with [] => [] | c' :: r => if dead c' then prune_list r else prune c' :: prune_list r end.

Lemma prune_Sub subs cs ex : prune (Sub subs cs ex) = Sub (prune_list subs) cs ex.
Proof. reflexivity. Qed.

(* the value prune() returns for a solver *)
Definition prune_returns (c : circ K) : bool := dead c.

(* no dead branch is left anywhere *)
Fixpoint no_dead (c : circ K) : Prop :=
  match c with
  | Leaf _ => True
  | Sub subs _ _ =>
      (fix all (l : list (circ K)) : Prop :=
         match l with [] => True | c' :: r => dead c' = false /\ no_dead c' /\ all r end) subs
  end.

Lemma circ_ind2 (P : circ K -> Prop) :
  (forall L, P (Leaf L)) ->
  (forall subs cs ex, (forall c, In c subs -> P c) -> P (Sub subs cs ex)) ->
  forall c, P c.
Proof.
  intros HL HS. fix IH 1. intros [L|subs cs ex]; [apply HL|]. apply HS.
  induction subs as [|c r IHr]; intros c' Hc; [destruct Hc|].
  destruct Hc as [<-|Hc]; [apply IH | apply IHr; exact Hc].
Qed.

Lemma dead_prune c : dead (prune c) = dead c.
Proof.
  induction c as [L|subs cs ex IH] using circ_ind2; [reflexivity|]. rewrite prune_Sub. simpl.
  induction subs as [|c r IHr]; [reflexivity|]. simpl.
  assert (IHc := IH c (or_introl eq_refl)).
  assert (IHr' : forallb dead (prune_list r) = forallb dead r).
  { apply IHr. intros c' Hc'. apply IH. right. exact Hc'. }
  destruct (dead c) eqn:E; simpl.
  - exact IHr'.
  - rewrite IHc. reflexivity.
Qed.

Theorem prune_no_dead c : no_dead (prune c).
Proof.
  induction c as [L|subs cs ex IH] using circ_ind2; [exact I|]. rewrite prune_Sub. simpl.
  induction subs as [|c r IHr]; [exact I|]. simpl.
  destruct (dead c) eqn:E; simpl.
  - apply IHr. intros c' Hc'. apply IH. right. exact Hc'.
  - split; [rewrite dead_prune; exact E|]. split; [apply IH; left; reflexivity|].
    apply IHr. intros c' Hc'. apply IH. right. exact Hc'.
Qed.

Lemma filter_id {A} (f : A -> bool) l : (forall x, In x l -> f x = true) -> filter f l = l.
Proof.
  induction l as [|x r IH]; intros H; [reflexivity|]. simpl. rewrite (H x (or_introl eq_refl)).
  f_equal. apply IH. intros y Hy. apply H. right. exact Hy.
Qed.

(* nothing else is removed: pruning something without dead branches changes nothing,
   in particular prune is idempotent *)
Theorem prune_fixpoint c : no_dead c -> prune c = c.
Proof.
  induction c as [L|subs cs ex IH] using circ_ind2; intros H; [reflexivity|]. rewrite prune_Sub. f_equal.
  simpl in H. induction subs as [|c r IHr]; [reflexivity|]. simpl.
  destruct H as (Hd & Hn & Hr). rewrite Hd. simpl. f_equal.
  - apply IH; [left; reflexivity | exact Hn].
  - apply IHr; [intros c' Hc'; apply IH; right; exact Hc' | exact Hr].
Qed.

Theorem prune_idempotent c : prune (prune c) = prune c.
Proof. apply prune_fixpoint. apply prune_no_dead. Qed.

(* the leaf components that survive are exactly the non-empty ones, in order *)
Lemma dead_leaves c : dead c = true -> forall L, In L (leaves c) -> l_pins L = [].
Proof.
  induction c as [L0|subs cs ex IH] using circ_ind2; simpl.
  - intros H L [<-|[]]. destruct (l_pins L0); [reflexivity|discriminate].
  - intros H L HL. apply in_flat_map in HL. destruct HL as (c & Hc & HL).
    rewrite forallb_forall in H. exact (IH c Hc (H c Hc) L HL).
Qed.

Theorem prune_leaves c :
  leaves (prune c) = filter (fun L => match l_pins L with [] => false | _ => true end) (leaves c)
  \/ dead c = true.
Proof.
  induction c as [L|subs cs ex IH] using circ_ind2.
  - simpl. destruct (l_pins L); [right; reflexivity|left; reflexivity].
  - left. rewrite prune_Sub. simpl. induction subs as [|c r IHr]; [reflexivity|]. simpl.
    rewrite filter_app.
    assert (IHr' : flat_map leaves (prune_list r)
                   = filter (fun L => match l_pins L with [] => false | _ => true end) (flat_map leaves r)).
    { apply IHr. intros c' Hc'. apply IH. right. exact Hc'. }
    destruct (dead c) eqn:E; simpl.
    + rewrite IHr'.
      assert (Hnil : filter (fun L : lst K => match l_pins L with [] => false | _ => true end) (leaves c) = []).
      { pose proof (dead_leaves c E) as Hl. induction (leaves c) as [|L l IHl]; [reflexivity|]. simpl.
        rewrite (Hl L (or_introl eq_refl)). apply IHl. intros L' HL'. apply Hl. right. exact HL'. }
      rewrite Hnil. reflexivity.
    + rewrite IHr'. f_equal. destruct (IH c (or_introl eq_refl)) as [H|H]; [exact H|congruence].
Qed.

End Prune.

Arguments dead {K}. Arguments prune {K}. Arguments prune_list {K}. Arguments no_dead {K}. Arguments prune_returns {K}.
