(* Monitor.v — monitors (sol.py:404-423, structure.py:501-556, model.py:726-764), C10.
   The solve with monitors eliminates the non-monitored structures into [main], the monitored
   ones into [monitor], joins the two for the external matrix and keeps the partitioned pair to
   compute, for an excitation, the waves on the links between them (int_complete).
   In hierarchy terms this is a two-group nesting (C02), plus the read-out defined here. *)
From Coq Require Import List Arith Lia Bool.
From Lekkersim Require Import Field Matrix Base Kernel Network Solve Hier.
Import ListNotations.

Section Monitor.
Variable K : cfield.

(* the read-out for one excitation: for every link (x on main, y on monitor), in main's pin order,
   the pin y of the monitored side with the wave entering it and the wave leaving it *)
Definition monitor_readout (cs : list conn) (main mon : lst K) (ain : waves K)
  : result (list (spin * K * K)) :=
  let lk := links cs main mon in
  let xs := map fst lk in let ys := map snd lk in
  let Ain := keep xs (l_pins main) in
  let Bout := keep ys (l_pins mon) in
  let u := fun i => ain (nth i Ain dpin) in
  let d := fun i => ain (nth i Bout dpin) in
  do ud <- int_complete (part main Ain xs) (part mon ys Bout) u d;
  Ok (map (fun j => (nth j ys dpin, fst ud j, snd ud j)) (seq 0 (length ys))).

(* the two groups as a netlist each: the group's components, the connections inside the group,
   every pin exposed (the group's free pins are what the other group and the outside see) *)
Definition in_group (ids : list nat) (L : lst K) : bool :=
  match l_pins L with [] => false | p :: _ => existsb (Nat.eqb (fst p)) ids end.

Definition group_net (net : netlist K) (sel : lst K -> bool) : netlist K :=
  let kept := filter sel (comps net) in
  {| comps := kept;
     conns := filter (fun c => mem (fst c) (allpins kept) && mem (snd c) (allpins kept)) (conns net);
     expo := allpins kept |}.

Record mon_result := { mr_T : lst K; mr_read : list (spin * K * K) }.

(* solve with monitors: [mon_ids] = ids of the monitored components.
   The matrix part (independent of the excitation and of which pins are exposed): *)
Definition mon_parts (net : netlist K) (mon_ids : list nat) (s_main s_mon : list (nat * nat))
  : result (lst K * lst K * lst K) :=
  let selM := in_group mon_ids in
  let selN := fun L => negb (selM L) in
  do main <- solve (group_net net selN) s_main;
  do mon <- solve (group_net net selM) s_mon;
  do T <- join (conns net) main mon;
  if negb (forallb (fun p => match partner (conns net) p with None => true | Some _ => false end)
                   (l_pins T)) then Err EConnectivity else Ok (main, mon, T).

Definition mon_solve (net : netlist K) (mon_ids : list nat) (s_main s_mon : list (nat * nat))
           (u : waves K) : result mon_result :=
  do p <- mon_parts net mon_ids s_main s_mon;
  let main := fst (fst p) in let mon := snd (fst p) in
  do rd <- monitor_readout (conns net) main mon (ext (expo net) u);
  Ok {| mr_T := snd p; mr_read := rd |}.

End Monitor.

Arguments monitor_readout {K}. Arguments mon_solve {K}. Arguments mon_parts {K}. Arguments group_net {K}.
Arguments in_group {K}. Arguments mr_T {K}. Arguments mr_read {K}.
