(* Solve.v — model of Structure.join (structure.py:400-499: partition, star product, reassembly)
   and of the elimination loop of Solver.solve (sol.py:379-402) under an explicit schedule.
   A live structure is (ordered pin list, matrix indexed by position); which pins of two live
   structures face each other is read off the netlist's connections.  Preconditions the code
   relies on (pins distinct, one connection per pin) are *checked* by the model and turned into
   errors, so the soundness theorem needs no well-formedness hypothesis. *)
From Coq Require Import List Arith Lia Bool.
From Lekkersim Require Import Field Matrix Base Kernel Network.
Import ListNotations.

Section Solve.
Variable K : cfield.

(* pins of A whose partner lies in B, in A's pin order, with that partner *)
Definition links (cs : list conn) (A B : lst K) : list (spin * spin) :=
  flat_map (fun x => match partner cs x with
                     | Some y => if mem y (l_pins B) then [(x, y)] else []
                     | None => [] end) (l_pins A).

Definition keep (drop : list spin) (l : list spin) : list spin :=
  filter (fun p => negb (mem p drop)) l.

(* split_in_out: the partitioned matrix with "left" pins ins and "right" pins outs *)
Definition part (A : lst K) (ins outs : list spin) : smx K :=
  let P := l_pins A in let S := l_S A in
  let n := length ins in let m := length outs in
  let pi := map (fun p => pos p P) ins in let po := map (fun p => pos p P) outs in
  {| sN := n; sM := m;
     S21 := tab n n (fun i j => S (nth i pi O) (nth j pi O));
     S22 := tab n m (fun i j => S (nth i pi O) (nth j po O));
     S11 := tab m n (fun i j => S (nth i po O) (nth j pi O));
     S12 := tab m m (fun i j => S (nth i po O) (nth j po O)) |}.

(* get_S_back: [[S21, S22], [S11, S12]] *)
Definition assemble (P : smx K) : mx K :=
  let n := sN P in let m := sM P in
  tab (n + m) (n + m)
    (fun i j => if i <? n then (if j <? n then S21 P i j else S22 P i (j - n))
                else (if j <? n then S11 P (i - n) j else S12 P (i - n) (j - n))).

Definition join (cs : list conn) (A B : lst K) : result (lst K) :=
  let lk := links cs A B in
  let xs := map fst lk in let ys := map snd lk in
  if negb (nodupb (l_pins A ++ l_pins B)) then Err ENameClash else
  if negb (nodupb ys) then Err EConnectivity else
  let Ain := keep xs (l_pins A) in
  let Bout := keep ys (l_pins B) in
  do P <- sadd (part A Ain xs) (part B ys Bout);
  Ok {| l_pins := Ain ++ Bout; l_S := assemble P |}.

Definition dlst : lst K := {| l_pins := []; l_S := mzero |}.

Fixpoint remove_nth {A} (i : nat) (l : list A) : list A :=
  match l, i with
  | [], _ => []
  | _ :: r, O => r
  | x :: r, S k => x :: remove_nth k r
  end.

(* one step of the loop: st_list.remove(source); st_list.remove(target); st_list.append(new) *)
Definition merge_step (cs : list conn) (live : list (lst K)) (ij : nat * nat) : result (list (lst K)) :=
  let (i, j) := ij in
  if Nat.eqb i j || negb (i <? length live) || negb (j <? length live) then Err ESchedule else
  do C <- join cs (nth i live dlst) (nth j live dlst);
  let live1 := remove_nth (Nat.max i j) live in
  let live2 := remove_nth (Nat.min i j) live1 in
  Ok (live2 ++ [C]).

Fixpoint solve_sched (cs : list conn) (live : list (lst K)) (sched : list (nat * nat))
  : result (list (lst K)) :=
  match sched with
  | [] => Ok live
  | ij :: rest => do live' <- merge_step cs live ij; solve_sched cs live' rest
  end.

(* the default schedule: always merge the first two live structures *)
Definition seq_sched (n : nat) : list (nat * nat) := repeat (0, 1)%nat (n - 1).

Definition conn_ends (cs : list conn) : list spin := map fst cs ++ map snd cs.

Definition solve (net : netlist K) (sched : list (nat * nat)) : result (lst K) :=
  let live0 := comps net in
  (* one connection per pin; structures are distinct; connections join pins that exist *)
  if negb (nodupb (conn_ends (conns net))) then Err EAlreadyConnected else
  if negb (nodupb (allpins live0)) then Err ENameClash else
  if negb (forallb (fun p => mem p (allpins live0)) (conn_ends (conns net))) then Err ENoSuchPin else
  do live <- solve_sched (conns net) live0 sched;
  match live with
  | [T] =>
      (* a pin that still has a partner would mean an accepted connection was left out *)
      if forallb (fun p => match partner (conns net) p with None => true | Some _ => false end)
                 (l_pins T)
      then Ok T else Err EConnectivity
  | _ => Err ESchedule
  end.

(* get_model: coefficient between two exposed pins, addressed by pin *)
Definition coeff (T : lst K) (p q : spin) : K := l_S T (pos p (l_pins T)) (pos q (l_pins T)).

End Solve.

Arguments links {K}. Arguments part {K}. Arguments assemble {K}. Arguments join {K}.
Arguments merge_step {K}. Arguments solve_sched {K}. Arguments solve {K}. Arguments coeff {K}.
Arguments dlst {K}.
