(* WiringRep.v — the representation invariant of the wiring state: every table of the solver and of every
   structure is determined by the list of structures and the set of links (C07 / C16).
   Part A: definition, consequences, preservation by add / connect / map / raise / solve. *)
From Coq Require Import List Arith Lia Bool.
From Lekkersim Require Import Base Network Wiring WiringProofs WiringInv.
Import ListNotations.

Definition linked (s : wstate) (z w : spin) : Prop := In (z, w) (w_conns s) \/ In (w, z) (w_conns s).
Definition entry (s : wstate) (m : nat) (z : spin) : option spin := dget spin_eqb z (s_conn (getst s m)).

Record Rep (s : wstate) : Prop := {
  r_structs  : NoDup (w_structs s);
  r_entry    : forall m z w, entry s m z = Some w <-> (fst z = m /\ linked s z w);
  r_keys     : forall m, NoDup (map fst (s_conn (getst s m)));
  r_ckeys    : NoDup (map fst (w_conns s));
  r_clist    : forall z, In z (w_clist s) <-> exists w, linked s z w;
  r_clist_nd : NoDup (w_clist s);
  r_link     : forall z w, linked s z w -> fst z <> fst w /\ nmem (fst z) (w_structs s) = true;
  r_to       : forall m n, nmem n (s_to (getst s m)) = true <-> exists z w, linked s z w /\ fst z = m /\ fst w = n;
  r_to_nd    : forall m, NoDup (s_to (getst s m));
  r_free     : forall p, In p (w_free s) -> nmem (fst p) (w_structs s) = true;
  r_own      : forall m p, In p (s_pins (getst s m)) -> fst p = m
}.

Lemma linked_sym s z w : linked s z w -> linked s w z.
Proof. unfold linked. tauto. Qed.

(* ---- association lists ---- *)
Lemma dget_In {V} (k : spin) (v : V) l : dget spin_eqb k l = Some v -> In (k, v) l.
Proof.
  induction l as [|[a b] r IH]; simpl; [discriminate|].
  destruct (spin_eqb_spec a k) as [->|Hne]; [intros H; injection H as <-; auto | auto].
Qed.
Lemma dget_None_notin {V} (k : spin) (l : list (spin * V)) : dget spin_eqb k l = None <-> ~ In k (map fst l).
Proof.
  induction l as [|[a b] r IH]; simpl; [tauto|].
  destruct (spin_eqb_spec a k) as [->|Hne]; [split; [discriminate | intros H; exfalso; apply H; auto]|].
  rewrite IH. split; [intros H [E|E]; [congruence | exact (H E)] | intros H E; apply H; auto].
Qed.
Lemma In_dget {V} (k : spin) (v : V) l : NoDup (map fst l) -> In (k, v) l -> dget spin_eqb k l = Some v.
Proof.
  induction l as [|[a b] r IH]; simpl; [tauto|]. intros Hnd Hin. inversion Hnd as [|? ? Hn Hr]; subst.
  destruct (spin_eqb_spec a k) as [->|Hne].
  - destruct Hin as [E|Hin]; [injection E as <-; reflexivity|]. exfalso. apply Hn. apply in_map_iff. exists (k, v). auto.
  - destruct Hin as [E|Hin]; [injection E as -> _; contradiction | auto].
Qed.
Lemma dget_all_None {V} (l : list (spin * V)) : (forall k, dget spin_eqb k l = None) -> l = [].
Proof. destruct l as [|[a b] r]; [reflexivity|]. intros H. specialize (H a). simpl in H. rewrite spin_eqb_refl in H. discriminate. Qed.

Lemma dset_fresh {V} (k : spin) (v : V) l : dget spin_eqb k l = None -> dset spin_eqb k v l = l ++ [(k, v)].
Proof.
  induction l as [|[a b] r IH]; simpl; [reflexivity|].
  destruct (spin_eqb_spec a k) as [->|Hne]; [discriminate|]. intros H. rewrite IH by exact H. reflexivity.
Qed.

Lemma NoDup_snoc {A} (l : list A) x : NoDup l -> ~ In x l -> NoDup (l ++ [x]).
Proof.
  induction l as [|y r IH]; simpl; intros H Hn; [constructor; [tauto | constructor]|].
  inversion H as [|? ? Hy Hr]; subst. constructor.
  - rewrite in_app_iff. simpl. intros [E|[E|[]]]; [exact (Hy E) | apply Hn; auto].
  - apply IH; [exact Hr | intros E; apply Hn; auto].
Qed.

(* ---- consequences ---- *)
Lemma Rep_functional s z w w' : Rep s -> linked s z w -> linked s z w' -> w = w'.
Proof.
  intros R H1 H2.
  assert (E1 : entry s (fst z) z = Some w) by (apply (r_entry s R); auto).
  assert (E2 : entry s (fst z) z = Some w') by (apply (r_entry s R); auto). congruence.
Qed.

Lemma Rep_Inv1 s : Rep s -> Inv1 s.
Proof.
  intros R. constructor.
  - intros z Hz. unfold tbl. destruct (dget spin_eqb z (s_conn (getst s (fst z)))) as [w|] eqn:E; [|reflexivity].
    exfalso. apply mem_nIn in Hz. apply Hz. apply (r_clist s R). exists w.
    apply (proj1 (r_entry s R (fst z) z w)). exact E.
  - intros id Hid. apply dget_all_None. intros k.
    destruct (dget spin_eqb k (s_conn (getst s id))) as [w|] eqn:E; [|reflexivity]. exfalso.
    destruct (proj1 (r_entry s R id k w) E) as [Ek Hl].
    destruct (r_link s R k w Hl) as [_ Hp]. congruence.
  - exact (r_free s R).
  - exact (r_own s R).
Qed.

Lemma Rep_empty : Rep w_empty.
Proof.
  constructor.
  - constructor.
  - intros m z w. unfold entry, linked; simpl. split; [discriminate | intros [_ [[]|[]]]].
  - intros m. constructor.
  - constructor.
  - intros z. unfold linked; simpl. split; [tauto | intros (w & [[]|[]])].
  - constructor.
  - intros z w [[]|[]].
  - intros m n. unfold linked; simpl. split; [discriminate | intros (z & w & [[]|[]] & _)].
  - intros m. constructor.
  - intros p [].
  - intros m p [].
Qed.

(* states that differ only in the exposed-pin table *)
Lemma Rep_map_only s s' :
  w_structs s' = w_structs s -> w_store s' = w_store s -> w_conns s' = w_conns s -> w_clist s' = w_clist s ->
  w_free s' = w_free s -> Rep s -> Rep s'.
Proof.
  intros E1 E2 E3 E4 E5 R.
  assert (G : forall id, getst s' id = getst s id) by (intros id; unfold getst; rewrite E2; reflexivity).
  assert (L : forall z w, linked s' z w <-> linked s z w) by (intros; unfold linked; rewrite E3; tauto).
  constructor.
  - rewrite E1. exact (r_structs s R).
  - intros m z w. unfold entry. rewrite G, L. exact (r_entry s R m z w).
  - intros m. rewrite G. exact (r_keys s R m).
  - rewrite E3. exact (r_ckeys s R).
  - intros z. rewrite E4. rewrite (r_clist s R z). split; intros (w & H); exists w; apply L; exact H.
  - rewrite E4. exact (r_clist_nd s R).
  - intros z w H. rewrite E1. apply (r_link s R). apply L. exact H.
  - intros m n. rewrite G, (r_to s R m n). split; intros (z & w & H & H'); exists z, w; (split; [apply L; exact H | exact H']).
  - intros m. rewrite G. exact (r_to_nd s R m).
  - intros p Hp. rewrite E1. apply (r_free s R). rewrite <- E5. exact Hp.
  - intros m p Hp. rewrite G in Hp. exact (r_own s R m p Hp).
Qed.
