(* WiringRep.v — the representation invariant of the wiring state: every table of the solver and of every
   structure is determined by the list of structures and the set of links (C07 / C16).
   Part A: definition, consequences, preservation by add / connect / map / raise / solve. *)
From Coq Require Import List Arith Lia Bool.
From Lekkersim Require Import Base Network Wiring WiringProofs WiringInv.
Import ListNotations.

Definition linked (s : wstate) (z w : spin) : Prop := In (z, w) (w_conns s) \/ In (w, z) (w_conns s).
Definition entry (s : wstate) (m : nat) (z : spin) : option spin := dget spin_eqb z (s_conn (getst s m)).

Record Rep (s : wstate) : Prop := {
  r_structs  : NoDup (w_structs s);
  r_entry    : forall m z w, entry s m z = Some w <-> (fst z = m /\ linked s z w);
  r_keys     : forall m, NoDup (map fst (s_conn (getst s m)));
  r_ckeys    : NoDup (map fst (w_conns s));
  r_clist    : forall z, In z (w_clist s) <-> exists w, linked s z w;
  r_clist_nd : NoDup (w_clist s);
  r_link     : forall z w, linked s z w -> fst z <> fst w /\ nmem (fst z) (w_structs s) = true;
  r_to       : forall m n, nmem n (s_to (getst s m)) = true <-> exists z w, linked s z w /\ fst z = m /\ fst w = n;
  r_to_nd    : forall m, NoDup (s_to (getst s m));
  r_free     : forall p, In p (w_free s) -> nmem (fst p) (w_structs s) = true;
  r_own      : forall m p, In p (s_pins (getst s m)) -> fst p = m
}.

Lemma linked_sym s z w : linked s z w -> linked s w z.
Proof. unfold linked. tauto. Qed.

(* ---- association lists ---- *)
Lemma dget_In {V} (k : spin) (v : V) l : dget spin_eqb k l = Some v -> In (k, v) l.
Proof.
  induction l as [|[a b] r IH]; simpl; [discriminate|].
  destruct (spin_eqb_spec a k) as [->|Hne]; [intros H; injection H as <-; auto | auto].
Qed.
Lemma dget_None_notin {V} (k : spin) (l : list (spin * V)) : dget spin_eqb k l = None <-> ~ In k (map fst l).
Proof.
  induction l as [|[a b] r IH]; simpl; [tauto|].
  destruct (spin_eqb_spec a k) as [->|Hne]; [split; [discriminate | intros H; exfalso; apply H; auto]|].
  rewrite IH. split; [intros H [E|E]; [congruence | exact (H E)] | intros H E; apply H; auto].
Qed.
Lemma In_dget {V} (k : spin) (v : V) l : NoDup (map fst l) -> In (k, v) l -> dget spin_eqb k l = Some v.
Proof.
  induction l as [|[a b] r IH]; simpl; [tauto|]. intros Hnd Hin. inversion Hnd as [|? ? Hn Hr]; subst.
  destruct (spin_eqb_spec a k) as [->|Hne].
  - destruct Hin as [E|Hin]; [injection E as <-; reflexivity|]. exfalso. apply Hn. apply in_map_iff. exists (k, v). auto.
  - destruct Hin as [E|Hin]; [injection E as -> _; contradiction | auto].
Qed.
Lemma dget_all_None {V} (l : list (spin * V)) : (forall k, dget spin_eqb k l = None) -> l = [].
Proof. destruct l as [|[a b] r]; [reflexivity|]. intros H. specialize (H a). simpl in H. rewrite spin_eqb_refl in H. discriminate. Qed.

Lemma dset_fresh {V} (k : spin) (v : V) l : dget spin_eqb k l = None -> dset spin_eqb k v l = l ++ [(k, v)].
Proof.
  induction l as [|[a b] r IH]; simpl; [reflexivity|].
  destruct (spin_eqb_spec a k) as [->|Hne]; [discriminate|]. intros H. rewrite IH by exact H. reflexivity.
Qed.

Lemma NoDup_snoc {A} (l : list A) x : NoDup l -> ~ In x l -> NoDup (l ++ [x]).
Proof.
  induction l as [|y r IH]; simpl; intros H Hn; [constructor; [tauto | constructor]|].
  inversion H as [|? ? Hy Hr]; subst. constructor.
  - rewrite in_app_iff. simpl. intros [E|[E|[]]]; [exact (Hy E) | apply Hn; auto].
  - apply IH; [exact Hr | intros E; apply Hn; auto].
Qed.

(* ---- consequences ---- *)
Lemma Rep_functional s z w w' : Rep s -> linked s z w -> linked s z w' -> w = w'.
Proof.
  intros R H1 H2.
  assert (E1 : entry s (fst z) z = Some w) by (apply (r_entry s R); auto).
  assert (E2 : entry s (fst z) z = Some w') by (apply (r_entry s R); auto). congruence.
Qed.

Lemma Rep_Inv1 s : Rep s -> Inv1 s.
Proof.
  intros R. constructor.
  - intros z Hz. unfold tbl. destruct (dget spin_eqb z (s_conn (getst s (fst z)))) as [w|] eqn:E; [|reflexivity].
    exfalso. apply mem_nIn in Hz. apply Hz. apply (r_clist s R). exists w.
    apply (proj1 (r_entry s R (fst z) z w)). exact E.
  - intros id Hid. apply dget_all_None. intros k.
    destruct (dget spin_eqb k (s_conn (getst s id))) as [w|] eqn:E; [|reflexivity]. exfalso.
    destruct (proj1 (r_entry s R id k w) E) as [Ek Hl].
    destruct (r_link s R k w Hl) as [_ Hp]. congruence.
  - exact (r_free s R).
  - exact (r_own s R).
Qed.

Lemma Rep_empty : Rep w_empty.
Proof.
  constructor.
  - constructor.
  - intros m z w. unfold entry, linked; simpl. split; [discriminate | intros [_ [[]|[]]]].
  - intros m. constructor.
  - constructor.
  - intros z. unfold linked; simpl. split; [tauto | intros (w & [[]|[]])].
  - constructor.
  - intros z w [[]|[]].
  - intros m n. unfold linked; simpl. split; [discriminate | intros (z & w & [[]|[]] & _)].
  - intros m. constructor.
  - intros p [].
  - intros m p [].
Qed.

(* states that differ only in the exposed-pin table *)
Lemma Rep_map_only s s' :
  w_structs s' = w_structs s -> w_store s' = w_store s -> w_conns s' = w_conns s -> w_clist s' = w_clist s ->
  w_free s' = w_free s -> Rep s -> Rep s'.
Proof.
  intros E1 E2 E3 E4 E5 R.
  assert (G : forall id, getst s' id = getst s id) by (intros id; unfold getst; rewrite E2; reflexivity).
  assert (L : forall z w, linked s' z w <-> linked s z w) by (intros; unfold linked; rewrite E3; tauto).
  constructor.
  - rewrite E1. exact (r_structs s R).
  - intros m z w. unfold entry. rewrite G, L. exact (r_entry s R m z w).
  - intros m. rewrite G. exact (r_keys s R m).
  - rewrite E3. exact (r_ckeys s R).
  - intros z. rewrite E4. rewrite (r_clist s R z). split; intros (w & H); exists w; apply L; exact H.
  - rewrite E4. exact (r_clist_nd s R).
  - intros z w H. rewrite E1. apply (r_link s R). apply L. exact H.
  - intros m n. rewrite G, (r_to s R m n). split; intros (z & w & H & H'); exists z, w; (split; [apply L; exact H | exact H']).
  - intros m. rewrite G. exact (r_to_nd s R m).
  - intros p Hp. rewrite E1. apply (r_free s R). rewrite <- E5. exact Hp.
  - intros m p Hp. rewrite G in Hp. exact (r_own s R m p Hp).
Qed.

(* ---- add ---- *)
Lemma nmem_all_false l : (forall n, nmem n l = false) -> l = [].
Proof. destruct l as [|a r]; [reflexivity|]. intros H. specialize (H a). simpl in H. rewrite Nat.eqb_refl in H. discriminate. Qed.

Lemma nmem_app n l1 l2 : nmem n (l1 ++ l2) = nmem n l1 || nmem n l2.
Proof. unfold nmem. apply existsb_app. Qed.

Lemma Rep_absent s id : Rep s -> nmem id (w_structs s) = false ->
  s_conn (getst s id) = [] /\ s_to (getst s id) = [].
Proof.
  intros R Hid. split.
  - exact (i_absent s (Rep_Inv1 s R) id Hid).
  - apply nmem_all_false. intros n. destruct (nmem n (s_to (getst s id))) eqn:E; [|reflexivity]. exfalso.
    apply (r_to s R) in E. destruct E as (z & w & Hl & Ez & _).
    destruct (r_link s R z w Hl) as [_ Hp]. congruence.
Qed.

Lemma Rep_add s id n s' : Rep s -> step s (Add id n) = (s', None) -> Rep s'.
Proof.
  intros R H. simpl in H. destruct (nmem id (w_structs s)) eqn:Eid; [discriminate|]. injection H as <-.
  destruct (Rep_absent s id R Eid) as [Hc0 Ht0].
  set (t := match dget Nat.eqb id (w_store s) with Some t => t | None => fresh_struct id n end).
  assert (Ht : s_conn t = s_conn (getst s id) /\ s_to t = s_to (getst s id) /\ forall p, In p (s_pins t) -> fst p = id).
  { unfold t. destruct (dget Nat.eqb id (w_store s)) as [t0|] eqn:E.
    - assert (Eg : getst s id = t0) by (unfold getst; rewrite E; reflexivity). rewrite Eg.
      split; [reflexivity|]. split; [reflexivity|]. intros p Hp. rewrite <- Eg in Hp. exact (r_own s R id p Hp).
    - rewrite Hc0, Ht0. split; [reflexivity|]. split; [reflexivity|].
      intros p Hp. simpl in Hp. apply in_map_iff in Hp. destruct Hp as (k & <- & _). reflexivity. }
  destruct Ht as (Hc & Hto & Hp).
  set (s' := {| w_structs := w_structs s ++ [id]; w_store := dset Nat.eqb id t (w_store s);
                w_conns := w_conns s; w_clist := w_clist s; w_free := w_free s ++ s_pins t; w_map := w_map s |}).
  assert (G : forall m, getst s' m = if Nat.eqb m id then t else getst s m).
  { intros m. unfold getst, s'; cbn [w_store]. destruct (Nat.eqb_spec m id) as [->|Hne].
    - rewrite ndget_dset_same. reflexivity.
    - rewrite ndget_dset_other by exact Hne. reflexivity. }
  assert (GC : forall m, s_conn (getst s' m) = s_conn (getst s m)).
  { intros m. rewrite G. destruct (Nat.eqb_spec m id) as [->|]; [exact Hc | reflexivity]. }
  assert (GT : forall m, s_to (getst s' m) = s_to (getst s m)).
  { intros m. rewrite G. destruct (Nat.eqb_spec m id) as [->|]; [exact Hto | reflexivity]. }
  assert (P : forall m, nmem m (w_structs s) = true -> nmem m (w_structs s') = true).
  { intros m Hm. unfold s'; cbn [w_structs]. rewrite nmem_app, Hm. reflexivity. }
  constructor.
  - unfold s'; cbn [w_structs]. apply NoDup_snoc; [exact (r_structs s R)|].
    intros Hin. apply nmem_In in Hin. congruence.
  - intros m z w. unfold entry. rewrite GC. exact (r_entry s R m z w).
  - intros m. rewrite GC. exact (r_keys s R m).
  - exact (r_ckeys s R).
  - exact (r_clist s R).
  - exact (r_clist_nd s R).
  - intros z w Hl. destruct (r_link s R z w Hl) as [H1 H2]. split; [exact H1 | apply P; exact H2].
  - intros m k. rewrite GT. exact (r_to s R m k).
  - intros m. rewrite GT. exact (r_to_nd s R m).
  - intros p Hin. unfold s' in Hin; cbn [w_free] in Hin. apply in_app_or in Hin. destruct Hin as [Hin|Hin].
    + apply P. exact (r_free s R p Hin).
    + rewrite (Hp p Hin). unfold s'; cbn [w_structs]. rewrite nmem_app. simpl. rewrite Nat.eqb_refl. apply orb_true_r.
  - intros m p Hin. rewrite G in Hin. destruct (Nat.eqb_spec m id) as [->|]; [exact (Hp p Hin) | exact (r_own s R m p Hin)].
Qed.

(* ---- connect ---- *)
Lemma dget_app {V} (z k : spin) (v : V) l : dget spin_eqb k l = None ->
  dget spin_eqb z (l ++ [(k, v)]) = match dget spin_eqb z l with Some w => Some w | None => if spin_eqb k z then Some v else None end.
Proof.
  intros Hk. induction l as [|[a b] r IH]; simpl.
  - reflexivity.
  - simpl in Hk. destruct (spin_eqb_spec a k) as [->|Hak]; [discriminate|].
    destruct (spin_eqb_spec a z); [reflexivity | apply IH; exact Hk].
Qed.

Lemma not_clist_no_key s x : Rep s -> ~ In x (w_clist s) -> dget spin_eqb x (w_conns s) = None.
Proof.
  intros R Hx. apply dget_None_notin. intros Hin. apply in_map_iff in Hin. destruct Hin as ([a b] & E & Hab).
  simpl in E. subst a. apply Hx. apply (r_clist s R). exists b. left. exact Hab.
Qed.

Lemma not_clist_unlinked s x w : Rep s -> ~ In x (w_clist s) -> ~ linked s x w.
Proof. intros R Hx Hl. apply Hx. apply (r_clist s R). exists w. exact Hl. Qed.

Lemma Rep_connect s x y s' : Rep s -> step s (Connect x y) = (s', None) -> Rep s'.
Proof.
  intros R H. pose proof (Rep_Inv1 s R) as I.
  destruct (Nat.eqb (fst x) (fst y)) eqn:E0; [simpl in H; rewrite E0 in H; discriminate|].
  destruct (mem x (w_clist s)) eqn:Ex.
  { simpl in H. rewrite E0, Ex in H.
    assert (s' = s); [|subst; exact R].
    destruct (dget spin_eqb x (w_conns s)) as [y'|]; destruct (dget spin_eqb y (w_conns s)) as [x'|];
      repeat match type of H with context [if ?b then _ else _] => destruct b end;
      try discriminate; injection H as <-; reflexivity. }
  destruct (mem y (w_clist s)) eqn:Ey; [simpl in H; rewrite E0, Ex, Ey in H; discriminate|].
  destruct (mem x (w_free s)) eqn:Fx; [|simpl in H; rewrite E0, Ex, Ey, Fx in H; discriminate].
  destruct (mem y (w_free s)) eqn:Fy; [|simpl in H; rewrite E0, Ex, Ey, Fx, Fy in H; discriminate].
  destruct (connect_ok_shape s x y I E0 Ex Ey Fx Fy) as (t1 & t2 & C1 & P1 & C2 & P2 & T1 & T2 & Hs).
  rewrite Hs in H. injection H as <-. clear Hs.
  assert (Hne : fst y <> fst x) by (apply Nat.eqb_neq in E0; congruence).
  assert (Hxy : x <> y) by (intros ->; congruence).
  apply mem_nIn in Ex. apply mem_nIn in Ey.
  assert (Kx : dget spin_eqb x (w_conns s) = None) by (apply not_clist_no_key; assumption).
  assert (Ux : forall w, ~ linked s x w) by (intros w; apply not_clist_unlinked; assumption).
  assert (Uy : forall w, ~ linked s y w) by (intros w; apply not_clist_unlinked; assumption).
  assert (Tx : dget spin_eqb x (s_conn (getst s (fst x))) = None) by (apply (i_tbl s I); apply mem_nIn; exact Ex).
  assert (Ty : dget spin_eqb y (s_conn (getst s (fst y))) = None) by (apply (i_tbl s I); apply mem_nIn; exact Ey).
  assert (Px : nmem (fst x) (w_structs s) = true) by (apply (r_free s R); apply mem_In; exact Fx).
  assert (Py : nmem (fst y) (w_structs s) = true) by (apply (r_free s R); apply mem_In; exact Fy).
  set (s1 := {| w_structs := w_structs s; w_store := w_store s;
                w_conns := dset spin_eqb x y (w_conns s); w_clist := w_clist s ++ [x; y];
                w_free := remove1 y (remove1 x (w_free s)); w_map := w_map s |}).
  change (Rep (setst (setst s1 (fst x) t1) (fst y) t2)).
  set (s' := setst (setst s1 (fst x) t1) (fst y) t2).
  assert (G : forall id, getst s' id = if Nat.eqb id (fst y) then t2 else if Nat.eqb id (fst x) then t1 else getst s id).
  { intros id. unfold s'. destruct (Nat.eqb_spec id (fst y)) as [->|H1]; [apply getst_setst_same|].
    rewrite getst_setst_other by exact H1.
    destruct (Nat.eqb_spec id (fst x)) as [->|H2]; [apply getst_setst_same|].
    rewrite getst_setst_other by exact H2. reflexivity. }
  assert (Cs : w_conns s' = w_conns s ++ [(x, y)]) by (unfold s', setst, s1; cbn [w_conns]; apply dset_fresh; exact Kx).
  assert (L : forall z w, linked s' z w <-> linked s z w \/ (z = x /\ w = y) \/ (z = y /\ w = x)).
  { intros z w. unfold linked. rewrite Cs, !in_app_iff. simpl. split.
    - intros [[H|[H|[]]]|[H|[H|[]]]]; try (injection H as <- <-); tauto.
    - intros [[H|H]|[[-> ->]|[-> ->]]]; tauto. }
  assert (Es : w_structs s' = w_structs s) by reflexivity.
  assert (Ec : w_clist s' = w_clist s ++ [x; y]) by reflexivity.
  assert (Ef : w_free s' = remove1 y (remove1 x (w_free s))) by reflexivity.
  clearbody s'. clear s1.
  (* the tables *)
  assert (En : forall m z, entry s' m z =
                 if Nat.eqb m (fst y) then match entry s m z with Some w => Some w | None => if spin_eqb y z then Some x else None end
                 else if Nat.eqb m (fst x) then match entry s m z with Some w => Some w | None => if spin_eqb x z then Some y else None end
                 else entry s m z).
  { intros m z. unfold entry. rewrite G.
    destruct (Nat.eqb_spec m (fst y)) as [->|H1]; [rewrite C2; apply dget_app; exact Ty|].
    destruct (Nat.eqb_spec m (fst x)) as [->|H2]; [rewrite C1; apply dget_app; exact Tx|]. reflexivity. }
  constructor.
  - rewrite Es. exact (r_structs s R).
  - intros m z w. rewrite En, L.
    destruct (Nat.eqb_spec m (fst y)) as [->|H1].
    + destruct (entry s (fst y) z) as [w0|] eqn:E.
      * pose proof (proj1 (r_entry s R (fst y) z w0) E) as [Ez Hl].
        split.
        -- intros Hw. injection Hw as <-. auto.
        -- intros [_ [Hl'|[[-> ->]|[-> ->]]]].
           ++ f_equal. exact (Rep_functional s z w0 w R Hl Hl').
           ++ congruence.
           ++ exfalso. exact (Uy _ Hl).
      * destruct (spin_eqb_spec y z) as [<-|Hyz].
        -- split; [intros Hw; injection Hw as <-; auto|]. intros [_ [Hl|[[Ea _]|[_ ->]]]]; [exfalso; exact (Uy _ Hl) | congruence | reflexivity].
        -- split; [discriminate|]. intros [Ez [Hl|[[-> ->]|[-> ->]]]]; [|congruence|congruence].
           assert (entry s (fst y) z = Some w) by (apply (r_entry s R); auto). congruence.
    + destruct (Nat.eqb_spec m (fst x)) as [->|H2].
      * destruct (entry s (fst x) z) as [w0|] eqn:E.
        -- pose proof (proj1 (r_entry s R (fst x) z w0) E) as [Ez Hl].
           split.
           ++ intros Hw. injection Hw as <-. auto.
           ++ intros [_ [Hl'|[[-> ->]|[-> ->]]]].
              ** f_equal. exact (Rep_functional s z w0 w R Hl Hl').
              ** exfalso. exact (Ux _ Hl).
              ** congruence.
        -- destruct (spin_eqb_spec x z) as [<-|Hxz].
           ++ split; [intros Hw; injection Hw as <-; auto|]. intros [_ [Hl|[[_ ->]|[Ea _]]]]; [exfalso; exact (Ux _ Hl) | reflexivity | congruence].
           ++ split; [discriminate|]. intros [Ez [Hl|[[-> ->]|[-> ->]]]]; [|congruence|congruence].
              assert (entry s (fst x) z = Some w) by (apply (r_entry s R); auto). congruence.
      * rewrite (r_entry s R m z w). split; [tauto|]. intros [Ez [Hl|[[-> ->]|[-> ->]]]]; [auto | congruence | congruence].
  - intros m. rewrite G.
    destruct (Nat.eqb_spec m (fst y)) as [->|H1].
    { rewrite C2, map_app. simpl. apply NoDup_snoc; [exact (r_keys s R (fst y)) | apply dget_None_notin; exact Ty]. }
    destruct (Nat.eqb_spec m (fst x)) as [->|H2].
    { rewrite C1, map_app. simpl. apply NoDup_snoc; [exact (r_keys s R (fst x)) | apply dget_None_notin; exact Tx]. }
    exact (r_keys s R m).
  - rewrite Cs, map_app. simpl. apply NoDup_snoc; [exact (r_ckeys s R) | apply dget_None_notin; exact Kx].
  - intros z. rewrite Ec, in_app_iff. simpl. split.
    + intros [Hz|[<-|[<-|[]]]].
      * apply (r_clist s R) in Hz. destruct Hz as (w & Hl). exists w. apply L. auto.
      * exists y. apply L. auto.
      * exists x. apply L. auto.
    + intros (w & Hl). apply L in Hl. destruct Hl as [Hl|[[-> _]|[-> _]]]; [left; apply (r_clist s R); eauto | auto | auto].
  - rewrite Ec.
    change (w_clist s ++ [x; y]) with (w_clist s ++ [x] ++ [y]). rewrite app_assoc.
    apply NoDup_snoc; [apply NoDup_snoc; [exact (r_clist_nd s R) | exact Ex]|].
    rewrite in_app_iff. simpl. intros [Hc|[Hc|[]]]; [exact (Ey Hc) | exact (Hxy Hc)].
  - intros z w Hl. apply L in Hl. rewrite Es.
    destruct Hl as [Hl|[[-> ->]|[-> ->]]]; [exact (r_link s R z w Hl) | split; [congruence | exact Px] | split; [congruence | exact Py]].
  - intros m k. rewrite G.
    assert (Q : forall (l : list nat) a, nmem k (if nmem a l then l else l ++ [a]) = nmem k l || Nat.eqb k a).
    { intros l a. destruct (nmem a l) eqn:Ea.
      - destruct (Nat.eqb_spec k a) as [->|]; [rewrite Ea; reflexivity | rewrite orb_false_r; reflexivity].
      - rewrite nmem_app. simpl. rewrite orb_false_r. reflexivity. }
    destruct (Nat.eqb_spec m (fst y)) as [->|H1].
    + rewrite T2, Q. rewrite orb_true_iff, (r_to s R (fst y) k), Nat.eqb_eq. split.
      * intros [[z [w [Hl [Hz Hw]]]] | -> ]; [exists z, w; split; [apply L; auto | auto] | exists y, x; split; [apply L; auto | auto]].
      * intros (z & w & Hl & Hz & Hw). apply L in Hl. destruct Hl as [Hl|[[-> ->]|[-> ->]]]; [left; eauto | congruence | right; symmetry; exact Hw].
    + destruct (Nat.eqb_spec m (fst x)) as [->|H2].
      * rewrite T1, Q. rewrite orb_true_iff, (r_to s R (fst x) k), Nat.eqb_eq. split.
        -- intros [[z [w [Hl [Hz Hw]]]] | -> ]; [exists z, w; split; [apply L; auto | auto] | exists x, y; split; [apply L; auto | auto]].
        -- intros (z & w & Hl & Hz & Hw). apply L in Hl. destruct Hl as [Hl|[[-> ->]|[-> ->]]]; [left; eauto | right; symmetry; exact Hw | congruence].
      * rewrite (r_to s R m k). split; intros (z & w & Hl & Hz & Hw).
        -- exists z, w. split; [apply L; auto | auto].
        -- apply L in Hl. destruct Hl as [Hl|[[-> ->]|[-> ->]]]; [eauto | congruence | congruence].
  - intros m. rewrite G.
    assert (Q : forall (l : list nat) a, NoDup l -> NoDup (if nmem a l then l else l ++ [a])).
    { intros l a Hl. destruct (nmem a l) eqn:Ea; [exact Hl|]. apply NoDup_snoc; [exact Hl|].
      intros Hin. apply nmem_In in Hin. congruence. }
    destruct (Nat.eqb_spec m (fst y)) as [->|H1]; [rewrite T2; apply Q; exact (r_to_nd s R (fst y))|].
    destruct (Nat.eqb_spec m (fst x)) as [->|H2]; [rewrite T1; apply Q; exact (r_to_nd s R (fst x))|].
    exact (r_to_nd s R m).
  - intros p Hp. rewrite Ef in Hp. rewrite Es.
    apply In_remove1, In_remove1 in Hp. exact (r_free s R p Hp).
  - intros m p Hp. rewrite G in Hp.
    destruct (Nat.eqb_spec m (fst y)) as [->|H1]; [rewrite P2 in Hp; exact (r_own s R _ p Hp)|].
    destruct (Nat.eqb_spec m (fst x)) as [->|H2]; [rewrite P1 in Hp; exact (r_own s R _ p Hp)|].
    exact (r_own s R m p Hp).
Qed.
