(* HierProofs.v — hierarchy is transparent (C02). *)
From Coq Require Import List Arith Lia Bool Field Ring Setoid Morphisms Permutation.
From Lekkersim Require Import Field Matrix Base Kernel KernelProofs Network Solve SolveProofs
  SolveComplete Energy Hier.
Import ListNotations.

Section HierProofs.
Variable K : cfield.
Hypothesis KL : cfield_laws K.

Notation "0" := (f0 K).
Notation "1" := (f1 K).
Infix "+" := (fadd K).
Infix "*" := (fmul K).
Infix "==" := (feq K) (at level 70).

Add Field Kfield6 : (F_ft K KL) (setoid (feq_equiv K KL) (F_ext K KL)).

Lemma restrict_inv (T R : lst K) ex : restrict T ex = Ok R ->
  NoDup ex /\ incl ex (l_pins T) /\
  R = {| l_pins := ex;
         l_S := tab (length ex) (length ex) (fun i j => coeff T (nth i ex dpin) (nth j ex dpin)) |}.
Proof.
  unfold restrict. destruct (nodupb ex && forallb (fun p => mem p (l_pins T)) ex) eqn:E; [|discriminate].
  apply andb_true_iff in E. destruct E as [E1 E2]. intros H; injection H as <-.
  split; [apply nodupb_ok; exact E1|]. split; [|reflexivity].
  intros p Hp. rewrite forallb_forall in E2. apply mem_In. apply E2. exact Hp.
Qed.

(* restricting a structure that obeys its equations under an excitation confined to [ex] *)
Lemma restrict_Sem (T R : lst K) ex (u b : waves K) :
  NoDup (l_pins T) -> restrict T ex = Ok R ->
  Sem T (ext ex u) b -> Sem R (ext ex u) b.
Proof.
  intros NT HR HS. destruct (restrict_inv T R ex HR) as (Nex & Hincl & ->).
  unfold Sem; cbn [l_pins l_S]. intros i Hi.
  set (p := nth i ex dpin). assert (Hp : In p (l_pins T)) by (apply Hincl, nth_In; exact Hi).
  pose proof (HS (pos p (l_pins T)) (pos_lt _ _ Hp)) as E. rewrite nth_pos in E by exact Hp.
  rewrite E.
  set (g := fun q => l_S T (pos p (l_pins T)) (pos q (l_pins T)) * ext ex u q).
  rewrite (bigsum_ext K KL (length (l_pins T)) _ (fun j => g (nth j (l_pins T) dpin))).
  2:{ intros j Hj. unfold g. rewrite pos_nth by assumption. reflexivity. }
  rewrite (bigsum_nth K KL).
  rewrite (lsum_perm K KL _ _ g (keep_perm ex (l_pins T) NT Nex Hincl)), (lsum_app K KL).
  rewrite (lsum_0 K KL (keep ex (l_pins T)) g).
  2:{ intros q Hq. apply keep_In in Hq. destruct Hq as [_ Hq]. unfold g, ext.
      apply mem_nIn in Hq. rewrite Hq. ring. }
  rewrite <- (bigsum_nth K KL).
  transitivity (bigsum (length ex) (fun j => g (nth j ex dpin))); [ring|].
  apply (bigsum_ext K KL). intros j Hj. unfold g. rewrite tab_ok by assumption. reflexivity.
Qed.

(* one level: the solved model of a solver (its exposed pins, solved matrix restricted to them)
   reports the solution of that level's network equations *)
Theorem level_sound (N : netlist K) sched T R :
  solve N sched = Ok T -> restrict T (expo N) = Ok R -> reports N R.
Proof.
  intros HT HR u a b W.
  destruct (solve_pins K N sched T HT) as [NT _].
  apply (restrict_Sem T R (expo N) u b NT HR). exact (solve_sound K KL N sched T HT u a b W).
Qed.

(* a bare component equals a solver that contains only it with all pins raised *)
Theorem bare_equals_wrapped pick (L R : lst K) :
  solve_hier pick (Sub [Leaf L] [] (l_pins L)) = Ok R ->
  l_pins R = l_pins L /\ meq (length (l_pins L)) (length (l_pins L)) (l_S R) (l_S L).
Proof.
  simpl. intros H. apply bind_ok in H. destruct H as (T & HT & HR).
  pose proof (solve_pins K _ _ T HT) as [NT _].
  apply (solve_inv K) in HT. destruct HT as (_ & Hs & _ & Hnd & _). cbn [comps conns] in *.
  assert (ET : T = L).
  { destruct (pick [L] []) as [|[i j] rest]; simpl in Hs; [injection Hs as <-; reflexivity|].
    unfold merge_step in Hs. cbn [length] in Hs.
    destruct (Nat.eqb i j || negb (i <? 1) || negb (j <? 1)) eqn:E; [discriminate|].
    apply orb_false_iff in E. destruct E as [E Ej]. apply orb_false_iff in E. destruct E as [Eij Ei].
    apply negb_false_iff, Nat.ltb_lt in Ei. apply negb_false_iff, Nat.ltb_lt in Ej.
    apply Nat.eqb_neq in Eij. lia. }
  subst T. destruct (restrict_inv L R _ HR) as (_ & _ & ->). cbn [l_pins l_S]. split; [reflexivity|].
  intros i j Hi Hj. rewrite tab_ok by assumption. unfold coeff.
  rewrite !pos_nth by assumption. reflexivity.
Qed.

(* ------------------------------------------------------------------------------------------ *)
(* any depth: a custom induction principle for the nested type *)
Lemma circ_ind' (P : circ K -> Prop) :
  (forall L, P (Leaf L)) ->
  (forall subs cs ex, Forall P subs -> P (Sub subs cs ex)) ->
  forall c, P c.
Proof.
  intros HL HS. fix IH 1. intros [L|subs cs ex]; [apply HL|]. apply HS.
  induction subs as [|c r IHr]; constructor; [apply IH | exact IHr].
Qed.

(* the list of children results *)
Fixpoint go_hier pick (l : list (circ K)) : result (list (lst K)) :=
  match l with
  | [] => Ok []
  | c' :: r => do L <- solve_hier pick c'; do rest <- go_hier pick r; Ok (L :: rest)
  end.

Lemma solve_hier_Sub pick subs cs ex :
  solve_hier pick (Sub subs cs ex) =
  (do Ls <- go_hier pick subs;
   do T <- solve {| comps := Ls; conns := cs; expo := ex |} (pick Ls cs);
   restrict T ex).
Proof.
  simpl. assert (E : forall l, (fix go (l : list (circ K)) : result (list (lst K)) :=
        match l with
        | [] => Ok []
        | c' :: r => do L <- solve_hier pick c'; do rest <- go r; Ok (L :: rest)
        end) l = go_hier pick l).
  { induction l as [|c r IHl]; simpl; [reflexivity|]. rewrite IHl. reflexivity. }
  rewrite E. reflexivity.
Qed.

Lemma go_hier_Forall2 pick subs Ls : go_hier pick subs = Ok Ls ->
  Forall2 (fun c L => solve_hier pick c = Ok L) subs Ls.
Proof.
  revert Ls. induction subs as [|c r IH]; intros Ls H; simpl in H.
  - injection H as <-. constructor.
  - apply bind_ok in H. destruct H as (L & HL & H). apply bind_ok in H. destruct H as (rest & Hr & H).
    injection H as <-. constructor; [exact HL | apply IH; exact Hr].
Qed.

(* well-formedness of a hierarchy: all leaf pins distinct (each placement is its own instance) *)
Definition hier_wf (c : circ K) : Prop := NoDup (allpins (leaves c)).

(* facts about a solved (sub)circuit: its pins are leaf pins that no connection of the subtree
   touches, and all connection ends of the subtree are leaf pins of the subtree *)
Definition good (c : circ K) (R : lst K) : Prop :=
  incl (l_pins R) (allpins (leaves c)) /\
  incl (conn_ends (all_conns c)) (allpins (leaves c)) /\
  (forall x, In x (l_pins R) -> ~ In x (conn_ends (all_conns c))) /\
  top_expo c = l_pins R.

Lemma conn_ends_app (l l' : list conn) x :
  In x (conn_ends (l ++ l')) <-> In x (conn_ends l) \/ In x (conn_ends l').
Proof.
  unfold conn_ends. rewrite !map_app. rewrite !in_app_iff. tauto.
Qed.

Lemma conn_ends_flat (f : circ K -> list conn) (l : list (circ K)) x :
  In x (conn_ends (flat_map f l)) <-> exists c, In c l /\ In x (conn_ends (f c)).
Proof.
  induction l as [|c r IH]; simpl.
  - split; [intros []|intros (c & [] & _)].
  - rewrite conn_ends_app, IH. split.
    + intros [H|(c' & Hc & H)]; [exists c; auto | exists c'; auto].
    + intros (c' & [<-|Hc] & H); [left; exact H | right; exists c'; auto].
Qed.

Lemma allpins_flat (l : list (circ K)) x :
  In x (allpins (flat_map leaves l)) <-> exists c, In c l /\ In x (allpins (leaves c)).
Proof.
  induction l as [|c r IH]; simpl.
  - split; [intros []|intros (c & [] & _)].
  - unfold allpins in *. rewrite map_app, concat_app, in_app_iff, IH. split.
    + intros [H|(c' & Hc & H)]; [exists c; auto | exists c'; auto].
    + intros (c' & [<-|Hc] & H); [left; exact H | right; exists c'; auto].
Qed.

Lemma partner_None_ends cs x : ~ In x (conn_ends cs) -> partner cs x = None.
Proof.
  intros H. apply partner_none_iff. intros [p q] Hin. destruct (In_conn_ends _ _ _ Hin) as [Hp Hq].
  simpl. split; intros ->; contradiction.
Qed.

Lemma partner_Some_ends cs x : In x (conn_ends cs) -> partner cs x <> None.
Proof.
  intros H Hn. unfold conn_ends in H. apply in_app_or in H.
  destruct H as [H|H]; apply in_map_iff in H; destruct H as ([p q] & E & Hin); simpl in E; subst;
    destruct (partner_None _ _ Hn _ Hin) as [H1 H2]; simpl in *; congruence.
Qed.

(* disjointness of sibling subtrees *)
Lemma allpins_flat_app (l l' : list (circ K)) :
  allpins (flat_map leaves (l ++ l')) = allpins (flat_map leaves l) ++ allpins (flat_map leaves l').
Proof. rewrite flat_map_app. apply allpins_app. Qed.

Lemma siblings_disjoint (subs : list (circ K)) c1 c2 x :
  NoDup (allpins (flat_map leaves subs)) ->
  In c1 subs -> In c2 subs -> In x (allpins (leaves c1)) -> In x (allpins (leaves c2)) -> c1 = c2.
Proof.
  intros Hnd H1 H2 X1 X2. apply in_split in H1. destruct H1 as (l1 & l2 & ->).
  rewrite allpins_flat_app in Hnd. simpl in Hnd. rewrite (allpins_app K) in Hnd.
  apply in_app_or in H2. destruct H2 as [H2|[H2|H2]]; [|exact H2|]; exfalso.
  - apply (NoDup_app_disj _ _ x Hnd).
    + apply allpins_flat. exists c2. auto.
    + apply in_or_app. left. exact X1.
  - apply NoDup_app_r in Hnd. apply (NoDup_app_disj _ _ x Hnd X1).
    apply allpins_flat. exists c2. auto.
Qed.

Lemma child_wf (subs : list (circ K)) c :
  NoDup (allpins (flat_map leaves subs)) -> In c subs -> NoDup (allpins (leaves c)).
Proof.
  intros Hnd H. apply in_split in H. destruct H as (l1 & l2 & ->).
  rewrite allpins_flat_app in Hnd. simpl in Hnd. rewrite (allpins_app K) in Hnd.
  apply NoDup_app_r in Hnd. apply NoDup_app_l in Hnd. exact Hnd.
Qed.

Lemma Forall2_In_l {A B} (R : A -> B -> Prop) l l' x : Forall2 R l l' -> In x l -> exists y, In y l' /\ R x y.
Proof.
  induction 1 as [|a b l l' Hab _ IH]; intros Hin; [destruct Hin|].
  destruct Hin as [<-|Hin]; [exists b; split; [left; reflexivity|exact Hab]|].
  destruct (IH Hin) as (y & Hy & Hr). exists y. split; [right; exact Hy|exact Hr].
Qed.

Lemma Forall2_In_r {A B} (R : A -> B -> Prop) l l' y : Forall2 R l l' -> In y l' -> exists x, In x l /\ R x y.
Proof.
  induction 1 as [|a b l l' Hab _ IH]; intros Hin; [destruct Hin|].
  destruct Hin as [<-|Hin]; [exists a; split; [left; reflexivity|exact Hab]|].
  destruct (IH Hin) as (x & Hx & Hr). exists x. split; [right; exact Hx|exact Hr].
Qed.

(* ---- THE theorem: any depth, any re-use, any exposure subset at every level ---- *)
Theorem hier_sound pick : forall c R,
  hier_wf c -> solve_hier pick c = Ok R -> good c R /\ reports (inline c) R.
Proof.
  induction c as [L|subs cs ex IH] using circ_ind'; intros R Hwf HR.
  - (* a bare component *)
    simpl in HR. injection HR as <-. split.
    + unfold good; simpl. split; [|split; [|split]].
      * intros p Hp. unfold allpins; simpl. rewrite app_nil_r. exact Hp.
      * intros p [].
      * intros x _ [].
      * reflexivity.
    + intros u a b (E1 & _ & E3). simpl in *.
      apply (Sem_ext K KL L a b); [|apply E1; left; reflexivity].
      intros p Hp. split; [|reflexivity]. symmetry. apply E3; [|reflexivity].
      unfold allpins; simpl. rewrite app_nil_r. exact Hp.
  - (* a solver containing placed sub-circuits *)
    rewrite solve_hier_Sub in HR.
    apply bind_ok in HR. destruct HR as (Ls & HLs & HR).
    apply bind_ok in HR. destruct HR as (T & HT & HR).
    set (N := {| comps := Ls; conns := cs; expo := ex |}) in *.
    pose proof (go_hier_Forall2 _ _ _ HLs) as F2.
    unfold hier_wf in Hwf. simpl in Hwf.
    rewrite Forall_forall in IH.
    assert (F1 : forall c' L, In c' subs -> solve_hier pick c' = Ok L ->
                   good c' L /\ reports (inline c') L).
    { intros c' L Hc HL. apply IH; [exact Hc | | exact HL]. apply (child_wf subs c' Hwf Hc). }
    destruct (restrict_inv T R ex HR) as (Nex & Hex & ER).
    destruct (solve_pins K N _ T HT) as [NT PT].
    pose proof HT as HT'. apply (solve_inv K) in HT'.
    destruct HT' as (Hce & Hs & Hfree & HndLs & Hends). cbn [comps conns] in *.
    assert (TsubLs : forall p, In p (l_pins T) -> In p (allpins Ls)).
    { intros p Hp. apply (proj1 (PT p)). exact Hp. }
    (* where a pin of a child's result lives *)
    assert (LsLeaf : forall x, In x (allpins Ls) ->
              exists c' L, In c' subs /\ solve_hier pick c' = Ok L /\ In x (l_pins L) /\
                           In x (allpins (leaves c'))).
    { intros x Hx. unfold allpins in Hx. apply in_concat in Hx. destruct Hx as (l & Hl & Hx).
      apply in_map_iff in Hl. destruct Hl as (L & <- & HL).
      destruct (Forall2_In_r _ _ _ L F2 HL) as (c' & Hc & Hsol).
      exists c', L. repeat split; try assumption.
      destruct (F1 c' L Hc Hsol) as [(G1 & _) _]. apply G1. exact Hx. }
    (* Lemma A: a pin of a child's result is touched by no connection inside any child *)
    assert (LemA : forall x c'', In x (allpins Ls) -> In c'' subs -> ~ In x (conn_ends (all_conns c''))).
    { intros x c'' Hx Hc'' Hin.
      destruct (LsLeaf x Hx) as (c' & L & Hc' & Hsol & HxL & Hxl).
      destruct (Forall2_In_l _ _ _ c'' F2 Hc'') as (L'' & _ & Hsol'').
      destruct (F1 c'' L'' Hc'' Hsol'') as [(_ & G2 & _) _].
      assert (E : c' = c'') by (apply (siblings_disjoint subs c' c'' x Hwf Hc' Hc'' Hxl); apply G2; exact Hin).
      subst c''. destruct (F1 c' L Hc' Hsol) as [(_ & _ & G3 & _) _]. exact (G3 x HxL Hin). }
    (* the pins of the flattened circuit *)
    assert (LeafFlat : forall c' x, In c' subs -> In x (allpins (leaves c')) ->
              In x (allpins (flat_map leaves subs))).
    { intros c' x Hc Hx. apply allpins_flat. exists c'. auto. }
    split.
    + (* good *)
      unfold good. rewrite ER. cbn [l_pins top_expo leaves all_conns].
      split; [|split; [|split]].
      * intros p Hp. destruct (LsLeaf p (TsubLs p (Hex p Hp))) as (c' & L & Hc' & _ & _ & Hl).
        exact (LeafFlat c' p Hc' Hl).
      * intros p Hp. apply conn_ends_app in Hp. destruct Hp as [Hp|Hp].
        -- destruct (LsLeaf p (Hends p Hp)) as (c' & L & Hc' & _ & _ & Hl). exact (LeafFlat c' p Hc' Hl).
        -- apply conn_ends_flat in Hp. destruct Hp as (c'' & Hc'' & Hp).
           destruct (Forall2_In_l _ _ _ c'' F2 Hc'') as (L'' & _ & Hsol'').
           destruct (F1 c'' L'' Hc'' Hsol'') as [(_ & G2 & _) _]. exact (LeafFlat c'' p Hc'' (G2 p Hp)).
      * intros x Hx Hin. apply conn_ends_app in Hin. destruct Hin as [Hin|Hin].
        -- apply (partner_Some_ends cs x Hin). apply Hfree. apply Hex. exact Hx.
        -- apply conn_ends_flat in Hin. destruct Hin as (c'' & Hc'' & Hin).
           exact (LemA x c'' (TsubLs x (Hex x Hx)) Hc'' Hin).
      * reflexivity.
    + (* reports *)
      intros u a b W. destruct W as (E1 & E2 & E3). cbn [inline comps conns expo leaves all_conns top_expo] in *.
      (* the same waves solve the parent-level network *)
      assert (WN : wave_solution N u a b).
      { split; [|split]; cbn [N comps conns expo].
        - (* every child's result obeys its equations *)
          intros L HL. destruct (Forall2_In_r _ _ _ L F2 HL) as (ci & Hci & Hsol).
          destruct (F1 ci L Hci Hsol) as [(G1 & G2 & G3 & G4) Rep].
          assert (Wi : wave_solution (inline ci) a a b).
          { split; [|split]; cbn [inline comps conns expo].
            - intros L' HL'. apply E1. apply in_flat_map. exists ci. auto.
            - intros x y Hxy. apply E2. apply in_or_app. right. apply in_flat_map. exists ci. auto.
            - intros x Hx Hn. rewrite G4. unfold ext.
              destruct (mem x (l_pins L)) eqn:Em; [reflexivity|]. apply mem_nIn in Em.
              (* Lemma B: x is free in the flat circuit and not exposed at the top *)
              assert (NoLs : ~ In x (allpins Ls)).
              { intros HxLs. destruct (LsLeaf x HxLs) as (c' & L' & Hc' & Hsol' & HxL' & Hxl').
                assert (E : ci = c') by (apply (siblings_disjoint subs ci c' x Hwf Hci Hc' Hx Hxl')).
                subst c'. rewrite Hsol in Hsol'. injection Hsol' as <-. contradiction. }
              rewrite (E3 x (LeafFlat ci x Hci Hx)).
              + unfold ext. assert (Emx : mem x ex = false).
                { apply mem_nIn. intros Hc. apply NoLs. apply TsubLs. apply Hex. exact Hc. }
                rewrite Emx. reflexivity.
              + apply partner_None_ends. intros Hin. apply conn_ends_app in Hin. destruct Hin as [Hin|Hin].
                * apply NoLs. apply Hends. exact Hin.
                * apply conn_ends_flat in Hin. destruct Hin as (c'' & Hc'' & Hin).
                  destruct (Forall2_In_l _ _ _ c'' F2 Hc'') as (L'' & _ & Hsol'').
                  destruct (F1 c'' L'' Hc'' Hsol'') as [(_ & G2'' & _) _].
                  assert (E : ci = c'') by (apply (siblings_disjoint subs ci c'' x Hwf Hci Hc'' Hx); apply G2''; exact Hin).
                  subst c''. exact (partner_Some_ends _ x Hin Hn). }
          pose proof (Rep a a b Wi) as SL. cbn [inline expo] in SL. rewrite G4 in SL.
          apply (Sem_ext K KL L (ext (l_pins L) a) b); [|exact SL].
          intros p Hp. split; [|reflexivity]. unfold ext. apply mem_In in Hp. rewrite Hp. reflexivity.
        - intros x y Hxy. apply E2. apply in_or_app. left. exact Hxy.
        - intros x Hx Hn. destruct (LsLeaf x Hx) as (c' & L & Hc' & _ & _ & Hl).
          apply (E3 x (LeafFlat c' x Hc' Hl)).
          apply partner_None_ends. intros Hin. apply conn_ends_app in Hin. destruct Hin as [Hin|Hin].
          + exact (partner_Some_ends cs x Hin Hn).
          + apply conn_ends_flat in Hin. destruct Hin as (c'' & Hc'' & Hin). exact (LemA x c'' Hx Hc'' Hin). }
      exact (level_sound N _ T R HT HR u a b WN).
Qed.

(* nested = flat: if both the nested solve and a solve of the equivalent single-level circuit
   succeed, they report the same coefficient between every two exposed pins *)
Lemma hier_nodup pick c R : hier_wf c -> solve_hier pick c = Ok R -> NoDup (l_pins R).
Proof.
  intros Hwf HR. destruct c as [L|subs cs ex].
  - simpl in HR. injection HR as <-. unfold hier_wf, allpins in Hwf. simpl in Hwf.
    rewrite app_nil_r in Hwf. exact Hwf.
  - rewrite solve_hier_Sub in HR. apply bind_ok in HR. destruct HR as (Ls & _ & HR).
    apply bind_ok in HR. destruct HR as (T & _ & HR).
    destruct (restrict_inv T R ex HR) as (Nex & _ & ->). exact Nex.
Qed.

Corollary hier_transparent pick c R sched Tf :
  hier_wf c -> solve_hier pick c = Ok R -> solve (inline c) sched = Ok Tf ->
  incl (l_pins R) (l_pins Tf) /\
  forall p q, In p (l_pins R) -> In q (l_pins R) -> coeff R p q == coeff Tf p q.
Proof.
  intros Hwf HR HTf.
  pose proof (hier_nodup pick c R Hwf HR) as NR.
  destruct (hier_sound pick c R Hwf HR) as [(G1 & _ & G3 & G4) Rep].
  assert (Hincl : incl (l_pins R) (l_pins Tf)).
  { intros p Hp. apply (proj2 (solve_pins K _ _ Tf HTf)). cbn [inline comps conns].
    split; [apply G1; exact Hp | apply partner_None_ends; apply G3; exact Hp]. }
  split; [exact Hincl|]. intros p q Hp Hq.
  destruct (solve_pins K _ _ Tf HTf) as [NTf _].
  set (net' := with_expo K (inline c) [q]).
  destruct (solve_complete K KL net' sched Tf (fun _ => 1) HTf) as (a & b & W).
  (* the flat solve, column q *)
  rewrite <- (sound_col K KL (inline c) sched Tf q a b p HTf W (Hincl p Hp) (Hincl q Hq)).
  (* the nested result on the same waves: excitation confined to q *)
  assert (W' : wave_solution (inline c) (fun x => if spin_eqb q x then 1 else 0) a b).
  { destruct W as (E1 & E2 & E3). split; [exact E1|]. split; [exact E2|].
    intros x Hx Hn. rewrite (E3 x Hx Hn). cbn [net' with_expo expo inline]. unfold ext. simpl.
    rewrite orb_false_r. destruct (spin_eqb_spec q x) as [<-|_].
    - rewrite G4. apply mem_In in Hq. rewrite Hq. reflexivity.
    - destruct (mem x (top_expo c)); reflexivity. }
  pose proof (Rep _ a b W') as SR.
  pose proof (SR (pos p (l_pins R)) (pos_lt _ _ Hp)) as E. rewrite nth_pos in E by exact Hp.
  symmetry. rewrite E. unfold coeff.
  rewrite (bigsum_ext K KL _ _ (fun j => l_S R (pos p (l_pins R)) j
                                         * (if Nat.eqb j (pos q (l_pins R)) then 1 else 0))).
  2:{ intros j Hj. cbn [inline expo]. unfold ext. rewrite G4.
      assert (Hm : mem (nth j (l_pins R) dpin) (l_pins R) = true) by (apply mem_In, nth_In; exact Hj).
      rewrite Hm.
      destruct (spin_eqb_spec q (nth j (l_pins R) dpin)) as [Eq|Eq].
      - rewrite Eq, pos_nth by assumption. rewrite Nat.eqb_refl. reflexivity.
      - destruct (Nat.eqb_spec j (pos q (l_pins R))) as [->|_]; [|reflexivity].
        exfalso. apply Eq. rewrite nth_pos by exact Hq. reflexivity. }
  apply (bigsum_delta_r K KL). apply pos_lt. exact Hq.
Qed.

End HierProofs.
