(* ModesCircuit.v — a circuit assembled from mode-expanded blocks wired by connect_all (every link replicated per
   mode, like with like) behaves as independent copies of the single-mode circuit: its waves solve the network
   equations exactly when, for every mode, the waves seen on that mode solve the single-mode circuit (C13). *)
From Coq Require Import List Arith Lia Bool Setoid Morphisms.
From Lekkersim Require Import Field Matrix Base Network Solve SolveProofs SolveComplete Modes ModesProofs.
Import ListNotations.

Section Circuit.
Variable K : cfield.
Hypothesis KL : cfield_laws K.
Infix "==" := (feq K) (at level 70).

Variable np : nat.
Variable cs : list (comp K).           (* the single-mode components *)
Variable links : list conn.            (* the single-mode connections *)
Variable ex : list spin.               (* the single-mode exposures *)

Definition Nof (id : nat) : nat :=
  match find (fun c => Nat.eqb (c_id c) id) cs with Some c => c_n c | None => 0%nat end.
Definition shift (i : nat) (x : spin) : spin := (fst x, expand_idx (Nof (fst x)) i (snd x)).
Definition view (i : nat) (w : waves K) : waves K := fun x => w (shift i x).

Definition base_net : netlist K := {| comps := map (@lst_of_comp K) cs; conns := links; expo := ex |}.
Definition exp_net : netlist K :=
  {| comps := map (fun c => lst_of_comp (exp_comp K (c_id c) np (c_n c) (c_S c))) cs;
     conns := flat_map (fun i => map (fun c => (shift i (fst c), shift i (snd c))) links) (seq 0 np);
     expo := flat_map (fun i => map (shift i) ex) (seq 0 np) |}.

Definition valid (x : spin) : Prop := exists c, In c cs /\ fst x = c_id c /\ (snd x < c_n c)%nat.

Hypothesis ids_nd : NoDup (map (@c_id K) cs).
Hypothesis links_valid : forall c, In c links -> valid (fst c) /\ valid (snd c).
Hypothesis ex_valid : forall x, In x ex -> valid x.

Lemma Nof_comp c : In c cs -> Nof (c_id c) = c_n c.
Proof.
  intros Hc. unfold Nof. clear links_valid ex_valid. induction cs as [|d r IH]; [destruct Hc|]. simpl.
  inversion ids_nd as [|? ? Hd Hr]; subst.
  destruct (Nat.eqb_spec (c_id d) (c_id c)) as [E|E].
  - destruct Hc as [->|Hc]; [reflexivity|]. exfalso. apply Hd. rewrite E. apply in_map. exact Hc.
  - destruct Hc as [->|Hc]; [congruence|]. apply IH; assumption.
Qed.

Lemma valid_bound x : valid x -> (snd x < Nof (fst x))%nat.
Proof. intros (c & Hc & E1 & E2). rewrite E1, (Nof_comp c Hc). exact E2. Qed.

Lemma shift_inj i j x y : valid x -> valid y -> shift i x = shift j y -> i = j /\ x = y.
Proof.
  intros Hx Hy E. unfold shift in E. injection E as E1 E2. rewrite <- E1 in E2.
  destruct (expand_idx_inj _ i j (snd x) (snd y) (valid_bound x Hx)) as [Ei En].
  - rewrite E1. exact (valid_bound y Hy).
  - exact E2.
  - split; [exact Ei|]. destruct x, y; simpl in *; congruence.
Qed.

(* the pins of the expanded components are exactly the shifted pins of the single-mode components *)
Lemma allpins_base x : In x (allpins (comps base_net)) <-> valid x.
Proof.
  unfold allpins, base_net; cbn [comps]. rewrite in_concat. split.
  - intros (l & Hl & Hx). apply in_map_iff in Hl. destruct Hl as (L & <- & HL). apply in_map_iff in HL.
    destruct HL as (c & <- & Hc). cbn [lst_of_comp l_pins] in Hx. unfold comp_pins in Hx. apply in_map_iff in Hx.
    destruct Hx as (k & <- & Hk). apply in_seq in Hk. exists c. simpl. split; [exact Hc|]. split; [reflexivity | lia].
  - intros (c & Hc & E1 & E2). exists (comp_pins c). split.
    + apply in_map_iff. exists (lst_of_comp c). split; [reflexivity|]. apply in_map. exact Hc.
    + unfold comp_pins. apply in_map_iff. exists (snd x). split; [destruct x; simpl in *; congruence | apply in_seq; lia].
Qed.

Lemma allpins_exp x' : In x' (allpins (comps exp_net)) <-> exists i x, (i < np)%nat /\ valid x /\ x' = shift i x.
Proof.
  unfold allpins, exp_net; cbn [comps]. rewrite in_concat. split.
  - intros (l & Hl & Hx). apply in_map_iff in Hl. destruct Hl as (L & <- & HL). apply in_map_iff in HL.
    destruct HL as (c & <- & Hc). cbn [lst_of_comp l_pins] in Hx. unfold comp_pins in Hx. cbn [exp_comp c_id c_n] in Hx.
    apply in_map_iff in Hx. destruct Hx as (r & <- & Hr). apply in_seq in Hr.
    assert (HN : c_n c <> 0%nat) by (intros E; rewrite E in Hr; lia).
    exists (r / c_n c)%nat, (c_id c, r mod c_n c)%nat.
    split; [apply Nat.div_lt_upper_bound; lia|]. split.
    + exists c. simpl. split; [exact Hc|]. split; [reflexivity | apply Nat.mod_upper_bound; exact HN].
    + unfold shift. cbn [fst snd]. rewrite (Nof_comp c Hc). unfold expand_idx. f_equal.
      rewrite (Nat.div_mod r (c_n c) HN) at 1. lia.
  - intros (i & x & Hi & (c & Hc & E1 & E2) & ->). exists (comp_pins (exp_comp K (c_id c) np (c_n c) (c_S c))). split.
    + apply in_map_iff. exists (lst_of_comp (exp_comp K (c_id c) np (c_n c) (c_S c))). split; [reflexivity|].
      apply in_map_iff. exists c. auto.
    + unfold comp_pins. cbn [exp_comp c_id c_n]. apply in_map_iff. exists (expand_idx (c_n c) i (snd x)).
      split; [unfold shift; rewrite E1, (Nof_comp c Hc); reflexivity|]. apply in_seq.
      pose proof (expand_idx_bound (c_n c) np i (snd x) Hi E2). lia.
Qed.

Lemma exp_links_In c' : In c' (conns exp_net) <-> exists i c, (i < np)%nat /\ In c links /\ c' = (shift i (fst c), shift i (snd c)).
Proof.
  unfold exp_net; cbn [conns]. rewrite in_flat_map. split.
  - intros (i & Hi & Hc). apply in_seq in Hi. apply in_map_iff in Hc. destruct Hc as (c & <- & Hc). exists i, c. split; [lia | auto].
  - intros (i & c & Hi & Hc & ->). exists i. split; [apply in_seq; lia|]. apply in_map_iff. exists c. auto.
Qed.

Lemma partner_shift i x : (i < np)%nat -> valid x ->
  (partner (conns exp_net) (shift i x) = None <-> partner links x = None).
Proof.
  intros Hi Hx. rewrite !partner_none_iff. split.
  - intros H c Hc. destruct (H (shift i (fst c), shift i (snd c))) as [A B].
    { apply exp_links_In. exists i, c. auto. }
    cbn [fst snd] in A, B. split; intros E; [apply A | apply B]; rewrite E; reflexivity.
  - intros H c' Hc'. apply exp_links_In in Hc'. destruct Hc' as (j & c & Hj & Hc & ->). cbn [fst snd].
    destruct (links_valid c Hc) as [V1 V2]. destruct (H c Hc) as [A B].
    split; intros E; [destruct (shift_inj j i (fst c) x V1 Hx E) as [_ E'] | destruct (shift_inj j i (snd c) x V2 Hx E) as [_ E']]; contradiction.
Qed.

Lemma mem_shift i x : (i < np)%nat -> valid x -> mem (shift i x) (expo exp_net) = mem x ex.
Proof.
  intros Hi Hx. destruct (mem x ex) eqn:E.
  - apply mem_In. apply mem_In in E. unfold exp_net; cbn [expo]. apply in_flat_map. exists i.
    split; [apply in_seq; lia | apply in_map; exact E].
  - apply mem_nIn. apply mem_nIn in E. intros Hin. apply E. unfold exp_net in Hin; cbn [expo] in Hin.
    apply in_flat_map in Hin. destruct Hin as (j & Hj & Hin). apply in_map_iff in Hin. destruct Hin as (y & Ey & Hy).
    destruct (shift_inj j i y x (ex_valid y Hy) Hx Ey) as [_ ->]. exact Hy.
Qed.

(* the waves seen on one mode, on the pins of a single-mode component *)
Lemma view_mode_view c i w x : In c cs -> In x (l_pins (lst_of_comp c)) -> view i w x = mode_view K (c_n c) i w x.
Proof.
  intros Hc Hx. cbn [lst_of_comp l_pins] in Hx. unfold comp_pins in Hx. apply in_map_iff in Hx. destruct Hx as (k & <- & _).
  unfold view, shift, mode_view. cbn [fst snd]. rewrite (Nof_comp c Hc). reflexivity.
Qed.

Theorem expanded_circuit_independent (u a b : waves K) :
  wave_solution exp_net u a b <->
  forall i, (i < np)%nat -> wave_solution base_net (view i u) (view i a) (view i b).
Proof.
  unfold wave_solution. split.
  - intros (H1 & H2 & H3) i Hi. split; [|split].
    + intros L HL. unfold base_net in HL; cbn [comps] in HL. apply in_map_iff in HL. destruct HL as (c & <- & Hc).
      assert (HS : Sem (lst_of_comp (exp_comp K (c_id c) np (c_n c) (c_S c))) a b).
      { apply H1. unfold exp_net; cbn [comps]. apply in_map_iff. exists c. auto. }
      apply (proj1 (expand_Sem K KL (c_id c) np (c_n c) (c_S c) a b)) with (i := i) in HS; [|exact Hi].
      assert (Ec : base_comp K (c_id c) (c_n c) (c_S c) = c) by (destruct c; reflexivity). rewrite Ec in HS.
      apply (Sem_ext K KL (lst_of_comp c) (mode_view K (c_n c) i a) (mode_view K (c_n c) i b) (view i a) (view i b)); [|exact HS].
      intros p Hp. rewrite !(view_mode_view c i _ p Hc Hp). split; reflexivity.
    + intros x y Hxy. unfold base_net in Hxy; cbn [conns] in Hxy. unfold view.
      apply (H2 (shift i x) (shift i y)). apply exp_links_In. exists i, (x, y). auto.
    + intros x Hx Hp. apply allpins_base in Hx. unfold base_net in Hp; cbn [conns] in Hp.
      unfold view at 1. rewrite (H3 (shift i x)).
      * unfold ext. cbn [expo base_net]. rewrite (mem_shift i x Hi Hx). destruct (mem x ex); reflexivity.
      * apply allpins_exp. exists i, x. auto.
      * apply (partner_shift i x Hi Hx). exact Hp.
  - intros H. split; [|split].
    + intros L HL. unfold exp_net in HL; cbn [comps] in HL. apply in_map_iff in HL. destruct HL as (c & <- & Hc).
      apply (proj2 (expand_Sem K KL (c_id c) np (c_n c) (c_S c) a b)). intros i Hi.
      destruct (H i Hi) as (H1 & _ & _).
      assert (Ec : base_comp K (c_id c) (c_n c) (c_S c) = c) by (destruct c; reflexivity). rewrite Ec.
      apply (Sem_ext K KL (lst_of_comp c) (view i a) (view i b) (mode_view K (c_n c) i a) (mode_view K (c_n c) i b)).
      * intros p Hp. rewrite !(view_mode_view c i _ p Hc Hp). split; reflexivity.
      * apply H1. unfold base_net; cbn [comps]. apply in_map. exact Hc.
    + intros x' y' Hc'. apply exp_links_In in Hc'. destruct Hc' as (i & c & Hi & Hc & E). injection E as -> ->.
      destruct (H i Hi) as (_ & H2 & _). destruct c as [x y]. exact (H2 x y Hc).
    + intros x' Hx' Hp. apply allpins_exp in Hx'. destruct Hx' as (i & x & Hi & Hx & ->).
      destruct (H i Hi) as (_ & _ & H3).
      specialize (H3 x (proj2 (allpins_base x) Hx) (proj1 (partner_shift i x Hi Hx) Hp)).
      unfold view at 1 in H3. rewrite H3. unfold ext. cbn [expo base_net]. rewrite (mem_shift i x Hi Hx).
      destruct (mem x ex); reflexivity.
Qed.
End Circuit.
