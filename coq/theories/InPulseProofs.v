(* InPulseProofs.v — export followed by import reproduces the model (C14). *)
From Coq Require Import List String Bool Arith QArith Qfield Lqa Lia.
From Lekkersim Require Import Base Names Modes InPulse.
Import ListNotations.

(* ---- pins, positions ---- *)
Lemma pin_eqb_refl p : pin_eqb p p = true.
Proof. destruct (pin_eqb_spec p p); congruence. Qed.

Lemma pin_mem_In p l : pin_mem p l = true <-> In p l.
Proof.
  unfold pin_mem. rewrite existsb_exists. split.
  - intros (x & Hx & E). destruct (pin_eqb_spec p x); [subst; exact Hx | discriminate].
  - intros H. exists p. split; [exact H | apply pin_eqb_refl].
Qed.

Lemma pin_nodupb_ok l : pin_nodupb l = true -> NoDup l.
Proof.
  induction l as [|x r IH]; simpl; intros H; [constructor|].
  apply andb_true_iff in H. destruct H as [H1 H2]. constructor; [|auto].
  intros Hin. apply pin_mem_In in Hin. rewrite Hin in H1. discriminate.
Qed.

Lemma str_nodupb_ok l : str_nodupb l = true -> NoDup l.
Proof.
  induction l as [|x r IH]; simpl; intros H; [constructor|].
  apply andb_true_iff in H. destruct H as [H1 H2]. constructor; [|auto].
  intros Hin. apply smem_In in Hin. rewrite Hin in H1. discriminate.
Qed.

Lemma pin_pos_nth p l : In p l -> nth_error l (pin_pos p l) = Some p.
Proof.
  induction l as [|x r IH]; simpl; [tauto|]. intros H.
  destruct (pin_eqb_spec x p) as [->|Hne]; [reflexivity|].
  destruct H as [H|H]; [congruence|]. simpl. auto.
Qed.

Lemma pin_pos_lt p l : In p l -> (pin_pos p l < List.length l)%nat.
Proof. intros H. apply nth_error_Some. rewrite pin_pos_nth by exact H. discriminate. Qed.

(* positions identify pins, whatever the list *)
Lemma pin_pos_inj p q l : In p l -> In q l -> pin_pos p l = pin_pos q l -> p = q.
Proof.
  intros Hp Hq E. apply pin_pos_nth in Hp. apply pin_pos_nth in Hq. rewrite E in Hp. congruence.
Qed.

Lemma in_pairs (p q : pin) pins : In (p, q) (pairs pins) <-> In p pins /\ In q pins.
Proof.
  unfold pairs. rewrite in_flat_map. split.
  - intros (x & Hx & H). apply in_map_iff in H. destruct H as (y & E & Hy). injection E as <- <-. auto.
  - intros [Hp Hq]. exists p. split; [exact Hp|]. apply in_map_iff. exists q. auto.
Qed.

Lemma find_unique {A} (f : A -> bool) (l : list A) (a : A) :
  In a l -> f a = true -> (forall x, In x l -> f x = true -> x = a) -> find f l = Some a.
Proof.
  intros Hin Hf Hu. destruct (find f l) as [x|] eqn:E.
  - apply find_some in E. destruct E as [H1 H2]. f_equal. apply Hu; assumption.
  - exfalso. pose proof (find_none f l E a Hin) as H. congruence.
Qed.

Section Codec.
Variable W : Type.
Variable enc : C -> W.
Variable dec : W -> C.

Lemma col_lookup_map {A} (name : A -> string) (v : A -> list W) (l : list A) (x : A) :
  NoDup (map name l) -> In x l ->
  col_lookup W (name x) (map (fun y => (name y, v y)) l) = Some (v x).
Proof.
  induction l as [|y r IH]; simpl; [tauto|]. intros Hnd Hin. inversion Hnd as [|? ? Hn Hr]; subst.
  destruct (String.eqb_spec (name y) (name x)) as [E|Hne].
  - destruct Hin as [->|Hin]; [reflexivity|]. exfalso. apply Hn. rewrite E. apply in_map. exact Hin.
  - destruct Hin as [->|Hin]; [congruence|]. auto.
Qed.

(* ---- the pins of the loaded model are the pins of the exported one ---- *)
Lemma ports_pins_In (pins : list pin) (bs : list string) (p : pin) :
  In p (ports_pins (map (fun b => (b, pin_modes b pins)) bs)) <-> In (basename p) bs /\ In p pins.
Proof.
  unfold ports_pins. rewrite in_flat_map. split.
  - intros (bm & Hbm & H). apply in_map_iff in Hbm. destruct Hbm as (b & <- & Hb). simpl in H.
    apply in_map_iff in H. destruct H as (m & <- & Hm). simpl.
    apply queries_modes in Hm. destruct Hm as (p' & Hp' & E1 & E2).
    split; [exact Hb|]. destruct p' as [b' m']. simpl in E1, E2. subst. exact Hp'.
  - intros [Hb Hp]. exists (basename p, pin_modes (basename p) pins). split.
    + apply in_map_iff. exists (basename p). auto.
    + simpl. apply in_map_iff. exists (mode_name p). split; [destruct p; reflexivity|].
      apply queries_modes. exists p. auto.
Qed.

Variable order : list string -> list string.
Hypothesis order_In : forall l b, In b (order l) <-> In b l.

Lemma encode_Ok m f : encode W enc order m = Ok f ->
  NoDup (s_pins m) /\
  NoDup (map (fun pq => colname (fst pq) (snd pq)) (pairs (s_pins m))) /\
  f = {| f_ports := map (fun b => (b, pin_modes b (s_pins m))) (order (pin_basenames (s_pins m)));
         f_map := map (fun pq => (fst pq, snd pq, colname (fst pq) (snd pq))) (pairs (s_pins m));
         f_cols := map (fun pq => (colname (fst pq) (snd pq),
                          map (fun S => enc (S (s_idx m (fst pq)) (s_idx m (snd pq)))) (s_S m)))
                       (pairs (s_pins m)) |}.
Proof.
  unfold encode. destruct (pin_nodupb (s_pins m)) eqn:E1; simpl; [|discriminate].
  destruct (str_nodupb _) eqn:E2; simpl; [|discriminate].
  intros H. injection H as <-. split; [apply pin_nodupb_ok; exact E1|].
  split; [apply str_nodupb_ok; exact E2 | reflexivity].
Qed.

Theorem loaded_pins m f : encode W enc order m = Ok f ->
  forall p, In p (l_pins W (decode W f)) <-> In p (s_pins m).
Proof.
  intros H p. apply encode_Ok in H. destruct H as (_ & _ & ->). unfold decode. cbn [l_pins f_ports].
  rewrite ports_pins_In, order_In. split; [tauto|]. intros Hp. split; [|exact Hp].
  apply queries_basenames. exists p. auto.
Qed.

Lemma nodup_app {A} (l l' : list A) : NoDup l -> NoDup l' -> (forall a, In a l -> ~ In a l') -> NoDup (l ++ l').
Proof.
  induction l as [|x r IH]; simpl; intros H1 H2 Hd; [exact H2|].
  inversion H1 as [|? ? Hx Hr]; subst. constructor.
  - rewrite in_app_iff. intros [H|H]; [exact (Hx H) | exact (Hd x (or_introl eq_refl) H)].
  - apply IH; [exact Hr | exact H2 | intros a Ha; apply Hd; right; exact Ha].
Qed.

Lemma modes_pins_filter (pins : list pin) b :
  map (fun m => {| basename := b; mode_name := m |}) (pin_modes b pins) =
  filter (fun p => String.eqb (basename p) b) pins.
Proof.
  unfold pin_modes. induction pins as [|p r IH]; [reflexivity|]. simpl.
  destruct (String.eqb_spec (basename p) b) as [E|Hne]; [|exact IH].
  simpl. rewrite IH. destruct p as [b' m']. simpl in E. subst. reflexivity.
Qed.

(* the pin table of the loaded model has no repetition: its indices are a bijection onto 0..n-1 *)
Theorem loaded_pins_nodup m f : NoDup (order (pin_basenames (s_pins m))) ->
  encode W enc order m = Ok f -> NoDup (l_pins W (decode W f)).
Proof.
  intros Hob H. apply encode_Ok in H. destruct H as (Hnd & _ & ->). unfold decode. cbn [l_pins f_ports].
  induction (order (pin_basenames (s_pins m))) as [|b r IH]; [constructor|].
  inversion Hob as [|? ? Hb Hr]; subst.
  change (NoDup (map (fun m0 => {| basename := b; mode_name := m0 |}) (pin_modes b (s_pins m)) ++
                 ports_pins (map (fun b => (b, pin_modes b (s_pins m))) r))).
  apply nodup_app; [rewrite modes_pins_filter; apply NoDup_filter; exact Hnd | apply IH; exact Hr|].
  intros a Ha Hin. apply ports_pins_In in Hin. destruct Hin as [Hbr _].
  rewrite modes_pins_filter in Ha. apply filter_In in Ha. destruct Ha as [_ Ea].
  apply String.eqb_eq in Ea. rewrite Ea in Hbr. exact (Hb Hbr).
Qed.

(* the coefficient the loaded model holds between p and q at sweep point k is the stored and
   re-read coefficient of the exported model between p and q at point k — first and last point
   included, every pin naming, nothing transposed *)
Theorem roundtrip_coeff m f p q k S : encode W enc order m = Ok f ->
  In p (s_pins m) -> In q (s_pins m) -> nth_error (s_S m) k = Some S ->
  let L := decode W f in
  coeff_at W dec L k (pin_pos p (l_pins W L)) (pin_pos q (l_pins W L)) =
  Some (dec (enc (S (s_idx m p) (s_idx m q)))).
Proof.
  intros H Hp Hq Hk L. pose proof (loaded_pins m f H) as HL.
  apply encode_Ok in H. destruct H as (Hnd & Hcols & Hf).
  assert (Hp' : In p (l_pins W L)) by (apply HL; exact Hp).
  assert (Hq' : In q (l_pins W L)) by (apply HL; exact Hq).
  unfold coeff_at.
  assert (E : entry_for (l_pins W L) (l_entries W L) (pin_pos p (l_pins W L)) (pin_pos q (l_pins W L))
              = Some (p, q, colname p q)).
  { unfold entry_for. apply find_unique.
    - apply -> in_rev. unfold L, decode. cbn [l_entries]. rewrite Hf. cbn [f_map].
      apply in_map_iff. exists (p, q). split; [reflexivity | apply in_pairs; auto].
    - cbn [fst snd]. rewrite !Nat.eqb_refl. reflexivity.
    - intros e He Hm. apply in_rev in He. unfold L, decode in He. cbn [l_entries] in He. rewrite Hf in He.
      cbn [f_map] in He. apply in_map_iff in He. destruct He as ([p' q'] & <- & Hpq).
      apply in_pairs in Hpq. destruct Hpq as [Hp2 Hq2]. cbn [fst snd] in Hm |- *.
      apply andb_true_iff in Hm. destruct Hm as [M1 M2]. apply Nat.eqb_eq in M1, M2.
      apply (pin_pos_inj p' p) in M1; [|apply HL; exact Hp2 | exact Hp'].
      apply (pin_pos_inj q' q) in M2; [|apply HL; exact Hq2 | exact Hq'].
      subst. reflexivity. }
  rewrite E. cbn [snd]. unfold L, decode. cbn [l_cols]. rewrite Hf. cbn [f_cols].
  pose proof (col_lookup_map (fun pq => colname (fst pq) (snd pq))
             (fun pq => map (fun S => enc (S (s_idx m (fst pq)) (s_idx m (snd pq)))) (s_S m))
             (pairs (s_pins m)) (p, q) Hcols (proj2 (in_pairs p q (s_pins m)) (conj Hp Hq))) as Hc.
  cbn [fst snd] in Hc. rewrite Hc.
  rewrite nth_error_map, Hk. reflexivity.
Qed.

(* with a faithful stored representation the coefficient itself comes back *)
Corollary roundtrip_grid m f p q k S : (forall z, dec (enc z) = z) -> encode W enc order m = Ok f ->
  In p (s_pins m) -> In q (s_pins m) -> nth_error (s_S m) k = Some S ->
  let L := decode W f in
  coeff_at W dec L k (pin_pos p (l_pins W L)) (pin_pos q (l_pins W L)) = Some (S (s_idx m p) (s_idx m q)).
Proof. intros Hc H Hp Hq Hk L. unfold L. rewrite (roundtrip_coeff m f p q k S H Hp Hq Hk), Hc. reflexivity. Qed.

(* ---- mode selection ---- *)
Lemma kept_In mm (pins : list pin) t :
  In t (flat_map (fun p => match mm_target mm p with Some t => [t] | None => [] end) pins) <->
  exists p, In p pins /\ mm_target mm p = Some t.
Proof.
  rewrite in_flat_map. split; intros (p & Hp & H); exists p; (split; [exact Hp|]).
  - destruct (mm_target mm p); simpl in H; [destruct H as [->|[]]; reflexivity | destruct H].
  - rewrite H. left. reflexivity.
Qed.

Lemma kept_inj mm (pins : list pin) p q t :
  NoDup pins ->
  NoDup (flat_map (fun p => match mm_target mm p with Some t => [t] | None => [] end) pins) ->
  In p pins -> In q pins -> mm_target mm p = Some t -> mm_target mm q = Some t -> p = q.
Proof.
  induction pins as [|x r IH]; simpl; [tauto|]. intros Hnd Hk Hp Hq Tp Tq.
  inversion Hnd as [|? ? Hx Hr]; subst.
  assert (Hkr : NoDup (flat_map (fun p => match mm_target mm p with Some t => [t] | None => [] end) r)).
  { destruct (mm_target mm x); simpl in Hk; [inversion Hk; assumption | exact Hk]. }
  destruct Hp as [->|Hp], Hq as [->|Hq]; [reflexivity| | |apply IH; assumption].
  - exfalso. rewrite Tp in Hk. simpl in Hk. inversion Hk as [|? ? Hn _]; subst. apply Hn.
    apply kept_In. exists q. auto.
  - exfalso. rewrite Tq in Hk. simpl in Hk. inversion Hk as [|? ? Hn _]; subst. apply Hn.
    apply kept_In. exists p. auto.
Qed.

(* a mode mapping keeps exactly the pins whose mode it maps, renamed, and every coefficient between
   two kept pins is the coefficient the unmapped model has between the original pins *)
Theorem mode_select_ok mm (L L' : loaded W) p q tp tq k :
  NoDup (l_pins W L) -> NoDup (map fst (l_entries W L)) ->
  (forall e, In e (l_entries W L) -> In (fst (fst e)) (l_pins W L) /\ In (snd (fst e)) (l_pins W L)) ->
  select_modes W mm L = Ok L' ->
  In p (l_pins W L) -> In q (l_pins W L) -> mm_target mm p = Some tp -> mm_target mm q = Some tq ->
  (forall t, In t (l_pins W L') <-> exists x, In x (l_pins W L) /\ mm_target mm x = Some t) /\
  coeff_at W dec L' k (pin_pos tp (l_pins W L')) (pin_pos tq (l_pins W L')) =
  coeff_at W dec L k (pin_pos p (l_pins W L)) (pin_pos q (l_pins W L)).
Proof.
  intros Hnd Hkeys Hclosed Hsel Hp Hq Tp Tq. unfold select_modes in Hsel.
  set (kept := flat_map (fun p => match mm_target mm p with Some t => [t] | None => [] end) (l_pins W L)) in *.
  destruct (pin_nodupb kept) eqn:Ek; simpl in Hsel; [|discriminate]. injection Hsel as <-.
  apply pin_nodupb_ok in Ek. cbn [l_pins l_entries l_cols].
  split; [intros t; apply kept_In|].
  assert (Htp : In tp kept) by (apply kept_In; exists p; auto).
  assert (Htq : In tq kept) by (apply kept_In; exists q; auto).
  unfold coeff_at. cbn [l_pins l_entries l_cols].
  set (ents' := flat_map (fun e => match mm_target mm (fst (fst e)), mm_target mm (snd (fst e)) with
                                   | Some a, Some b => [(a, b, snd e)] | _, _ => [] end) (l_entries W L)).
  (* the entry of (p, q) in L, if any *)
  destruct (entry_for (l_pins W L) (l_entries W L) (pin_pos p (l_pins W L)) (pin_pos q (l_pins W L)))
    as [e|] eqn:E.
  - unfold entry_for in E. apply find_some in E. destruct E as [He Hm]. apply in_rev in He.
    apply andb_true_iff in Hm. destruct Hm as [M1 M2]. apply Nat.eqb_eq in M1, M2.
    destruct (Hclosed e He) as [C1 C2].
    apply (pin_pos_inj _ p) in M1; [|exact C1 | exact Hp].
    apply (pin_pos_inj _ q) in M2; [|exact C2 | exact Hq].
    assert (E' : entry_for kept ents' (pin_pos tp kept) (pin_pos tq kept) = Some (tp, tq, snd e)).
    { unfold entry_for. apply find_unique.
      - apply -> in_rev. unfold ents'. apply in_flat_map. exists e. split; [exact He|].
        rewrite M1, M2, Tp, Tq. left. reflexivity.
      - cbn [fst snd]. rewrite !Nat.eqb_refl. reflexivity.
      - intros x Hx Hmx. apply in_rev in Hx. unfold ents' in Hx. apply in_flat_map in Hx.
        destruct Hx as (e2 & He2 & Hx).
        destruct (mm_target mm (fst (fst e2))) as [a|] eqn:Ta; [|destruct Hx].
        destruct (mm_target mm (snd (fst e2))) as [b|] eqn:Tb; [|destruct Hx].
        destruct Hx as [<-|[]]. cbn [fst snd] in Hmx.
        apply andb_true_iff in Hmx. destruct Hmx as [N1 N2]. apply Nat.eqb_eq in N1, N2.
        destruct (Hclosed e2 He2) as [D1 D2].
        apply (pin_pos_inj a tp) in N1; [|apply kept_In; eauto | exact Htp].
        apply (pin_pos_inj b tq) in N2; [|apply kept_In; eauto | exact Htq].
        subst a b.
        assert (F1 : fst (fst e2) = p) by (apply (kept_inj mm (l_pins W L) _ _ tp); assumption).
        assert (F2 : snd (fst e2) = q) by (apply (kept_inj mm (l_pins W L) _ _ tq); assumption).
        assert (Ee : e2 = e).
        { assert (Hf : fst e2 = fst e) by (destruct e2 as [[? ?] ?], e as [[? ?] ?]; simpl in *; congruence).
          clear - Hkeys He He2 Hf. induction (l_entries W L) as [|y r IH]; [destruct He|].
          simpl in Hkeys. inversion Hkeys as [|? ? Hn Hr]; subst.
          destruct He as [->|He], He2 as [->|He2]; [reflexivity| | |auto].
          - exfalso. apply Hn. rewrite <- Hf. apply in_map. exact He2.
          - exfalso. apply Hn. rewrite Hf. apply in_map. exact He. }
        subst e2. reflexivity. }
    rewrite E'. reflexivity.
  - assert (E' : entry_for kept ents' (pin_pos tp kept) (pin_pos tq kept) = None).
    { unfold entry_for. destruct (find _ (rev ents')) as [x|] eqn:F; [|reflexivity]. exfalso.
      apply find_some in F. destruct F as [Hx Hmx]. apply in_rev in Hx. unfold ents' in Hx.
      apply in_flat_map in Hx. destruct Hx as (e2 & He2 & Hx).
      destruct (mm_target mm (fst (fst e2))) as [a|] eqn:Ta; [|destruct Hx].
      destruct (mm_target mm (snd (fst e2))) as [b|] eqn:Tb; [|destruct Hx].
      destruct Hx as [<-|[]]. cbn [fst snd] in Hmx.
      apply andb_true_iff in Hmx. destruct Hmx as [N1 N2]. apply Nat.eqb_eq in N1, N2.
      destruct (Hclosed e2 He2) as [D1 D2].
      apply (pin_pos_inj a tp) in N1; [|apply kept_In; eauto | exact Htp].
      apply (pin_pos_inj b tq) in N2; [|apply kept_In; eauto | exact Htq].
      subst a b.
      assert (F1 : fst (fst e2) = p) by (apply (kept_inj mm (l_pins W L) _ _ tp); assumption).
      assert (F2 : snd (fst e2) = q) by (apply (kept_inj mm (l_pins W L) _ _ tq); assumption).
      unfold entry_for in E.
      pose proof (find_none _ _ E e2 (proj1 (in_rev _ _) He2)) as Hn.
      cbv beta in Hn. rewrite F1, F2, !Nat.eqb_refl in Hn. discriminate. }
    rewrite E'. reflexivity.
Qed.
End Codec.

(* ---- evaluation of a loaded one-parameter model at the exported sweep values ---- *)
From Lekkersim Require Import Interp.

Section Eval.
Variable W : Type.
Variable dec : W -> C.

Lemma combine_fst {A B} (l : list A) (l' : list B) : List.length l = List.length l' -> map fst (combine l l') = l.
Proof.
  revert l'. induction l as [|x r IH]; intros [|y r'] H; simpl in *; try discriminate; [reflexivity|].
  f_equal. apply IH. lia.
Qed.

Lemma combine_nth {A B} (l : list A) (l' : list B) k x y :
  nth_error l k = Some x -> nth_error l' k = Some y -> nth_error (combine l l') k = Some (x, y).
Proof.
  revert l l'. induction k as [|k IH]; intros [|a r] [|b r'] H1 H2; simpl in *; try discriminate.
  - congruence.
  - apply IH; assumption.
Qed.

(* a loaded model whose sweep values are strictly increasing (at least two of them) can be evaluated at
   every one of them — the first and the last included — and returns what it holds for that point *)
Theorem eval_at_grid (L : loaded W) xs k xk i j v :
  strictly_inc xs = true -> (2 <= List.length xs)%nat ->
  (forall c vals, In (c, vals) (l_cols W L) -> List.length vals = List.length xs) ->
  nth_error xs k = Some xk ->
  coeff_at W dec L k i j = Some v ->
  exists v', coeff_interp W dec L xs xk i j = Some v' /\ ceq v' v.
Proof.
  intros Hs Hlen Hcols Hk. unfold coeff_at, coeff_interp.
  destruct (entry_for (l_pins W L) (l_entries W L) i j) as [e|].
  2:{ intros H. injection H as <-. exists czero. split; [reflexivity | apply ceq_refl]. }
  destruct (col_lookup W (snd e) (l_cols W L)) as [vals|] eqn:El; [|discriminate].
  assert (Hl : List.length vals = List.length xs).
  { apply (Hcols (snd e)). clear - El. induction (l_cols W L) as [|[c0 v0] r IH]; [discriminate|].
    simpl in El. destruct (String.eqb_spec c0 (snd e)) as [->|Hne].
    - injection El as <-. left. reflexivity.
    - right. apply IH. exact El. }
  destruct (nth_error vals k) as [w|] eqn:Ew; simpl; [|discriminate]. intros H. injection H as <-.
  apply (interp_grid (combine xs (map dec vals)) k xk (dec w)).
  - rewrite combine_fst by (rewrite map_length; lia). exact Hs.
  - rewrite combine_length, map_length, Hl, Nat.min_id. exact Hlen.
  - apply combine_nth; [exact Hk|]. rewrite nth_error_map, Ew. reflexivity.
Qed.

(* ... and between two neighbouring sweep values it interpolates linearly *)
Theorem eval_between (L : loaded W) xs k xk xk1 i j v v1 t :
  strictly_inc xs = true ->
  (forall c vals, In (c, vals) (l_cols W L) -> List.length vals = List.length xs) ->
  nth_error xs k = Some xk -> nth_error xs (S k) = Some xk1 ->
  coeff_at W dec L k i j = Some v -> coeff_at W dec L (S k) i j = Some v1 ->
  0 <= t -> t <= 1 ->
  exists v', coeff_interp W dec L xs ((1 - t) * xk + t * xk1) i j = Some v' /\
             ceq v' (cadd (cscal (1 - t) v) (cscal t v1)).
Proof.
  intros Hs Hcols Hk Hk1. unfold coeff_at, coeff_interp.
  destruct (entry_for (l_pins W L) (l_entries W L) i j) as [e|].
  2:{ intros H H1 _ _. injection H as <-. injection H1 as <-. exists czero. split; [reflexivity|].
      unfold ceq, cadd, cscal, czero; simpl. split; ring. }
  destruct (col_lookup W (snd e) (l_cols W L)) as [vals|] eqn:El; [|discriminate].
  assert (Hl : List.length vals = List.length xs).
  { apply (Hcols (snd e)). clear - El. induction (l_cols W L) as [|[c0 v0] r IH]; [discriminate|].
    simpl in El. destruct (String.eqb_spec c0 (snd e)) as [->|Hne].
    - injection El as <-. left. reflexivity.
    - right. apply IH. exact El. }
  destruct (nth_error vals k) as [w|] eqn:Ew; [|cbn [option_map]; discriminate].
  destruct (nth_error vals (S k)) as [w1|] eqn:Ew1; [|cbn [option_map]; intros _; discriminate].
  cbn [option_map]. intros H H1 Ht0 Ht1. injection H as <-. injection H1 as <-.
  apply (interp_between (combine xs (map dec vals)) k xk (dec w) xk1 (dec w1) t).
  - rewrite combine_fst by (rewrite map_length; lia). exact Hs.
  - apply combine_nth; [exact Hk|]. rewrite nth_error_map, Ew. reflexivity.
  - apply combine_nth; [exact Hk1|]. rewrite nth_error_map, Ew1. reflexivity.
  - exact Ht0.
  - exact Ht1.
Qed.
End Eval.
