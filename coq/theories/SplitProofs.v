(* SplitProofs.v — the incremental union of Solver.split computes the connected components (C12). *)
From Coq Require Import List Arith Lia Bool Relations.
From Lekkersim Require Import Split.
Import ListNotations.

Lemma nin_In x l : nin x l = true <-> In x l.
Proof.
  unfold nin. rewrite existsb_exists. split.
  - intros (y & Hy & E). apply Nat.eqb_eq in E. subst. exact Hy.
  - intros H. exists x. split; [exact H | apply Nat.eqb_refl].
Qed.

Lemma nodupn_In x l : In x (nodupn l) <-> In x l.
Proof.
  induction l as [|y r IH]; simpl; [tauto|].
  destruct (nin y r) eqn:E.
  - rewrite IH. apply nin_In in E. split; [auto|]. intros [<-|H]; auto.
  - simpl. rewrite IH. tauto.
Qed.

Lemma touches_spec adjs S : touches adjs S = true <-> exists t, In t adjs /\ In t S.
Proof.
  unfold touches. rewrite existsb_exists. split; intros (t & H1 & H2); exists t; split; auto;
    apply nin_In; exact H2.
Qed.

Section SplitProofs.
Variable adj : nat -> list nat.
Variable structs : list nat.
Hypothesis adj_sym : forall s t, In t (adj s) -> In s (adj t).
Hypothesis adj_closed : forall s t, In s structs -> In t (adj s) -> In t structs.
Hypothesis structs_nodup : NoDup structs.

Definition edge (s t : nat) : Prop := In t (adj s).
Definition Reach : nat -> nat -> Prop := clos_refl_trans nat edge.

Lemma Reach_sym x y : Reach x y -> Reach y x.
Proof.
  induction 1 as [x y H|x|x y z _ IH1 _ IH2].
  - apply rt_step. apply adj_sym. exact H.
  - apply rt_refl.
  - eapply rt_trans; eassumption.
Qed.

Definition disjoint (A B : list nat) : Prop := forall x, In x A -> In x B -> False.

Record Inv (P : list nat) (sets : list (list nat)) : Prop := {
  inv_disj : ForallOrdPairs disjoint sets;
  inv_conn : forall S x y, In S sets -> In x S -> In y S -> Reach x y;
  inv_cover : forall p, In p P -> exists S, In S sets /\ In p S;
  inv_pairs : forall p q S, In p P -> In q P -> In q (adj p) -> In S sets -> In p S -> In q S;
  inv_origin : forall S x, In S sets -> In x S ->
                 In x P \/ exists p, In p P /\ In p S /\ In x (adj p)
}.

Lemma Inv_nil : Inv [] [].
Proof.
  constructor.
  - constructor.
  - intros S x y [].
  - intros p [].
  - intros p q S [].
  - intros S x [].
Qed.

Lemma FOP_filter {A} (R : A -> A -> Prop) f (l : list A) :
  ForallOrdPairs R l -> ForallOrdPairs R (filter f l).
Proof.
  induction 1 as [|a l Ha _ IH]; simpl; [constructor|].
  destruct (f a); [|exact IH]. constructor; [|exact IH].
  rewrite Forall_forall in *. intros x Hx. apply filter_In in Hx. apply Ha. tauto.
Qed.

Lemma FOP_snoc {A} (R : A -> A -> Prop) (l : list A) x :
  ForallOrdPairs R l -> (forall y, In y l -> R y x) -> ForallOrdPairs R (l ++ [x]).
Proof.
  induction 1 as [|a l Ha _ IH]; intros Hx; simpl.
  - constructor; [constructor | constructor].
  - constructor.
    + rewrite Forall_forall in *. intros y Hy. apply in_app_or in Hy.
      destruct Hy as [Hy|[<-|[]]]; [apply Ha; exact Hy | apply Hx; left; reflexivity].
    + apply IH. intros y Hy. apply Hx. right. exact Hy.
Qed.

(* two sets on different sides of a filter are disjoint *)
Lemma FOP_filter_split (f : list nat -> bool) (l : list (list nat)) A B :
  ForallOrdPairs disjoint l -> In A (filter f l) -> In B (filter (fun S => negb (f S)) l) ->
  disjoint A B.
Proof.
  induction 1 as [|a l Ha _ IH]; simpl; [intros []|].
  rewrite Forall_forall in Ha.
  destruct (f a) eqn:E; simpl.
  - intros [<-|HA] HB.
    + apply filter_In in HB. apply Ha. tauto.
    + apply IH; assumption.
  - intros HA [<-|HB].
    + apply filter_In in HA. intros x Hx1 Hx2. exact (Ha A (proj1 HA) x Hx2 Hx1).
    + apply IH; assumption.
Qed.

Lemma in_sets_split (f : list nat -> bool) (l : list (list nat)) S :
  In S l -> In S (filter f l) \/ In S (filter (fun S => negb (f S)) l).
Proof.
  intros H. destruct (f S) eqn:E; [left|right]; apply filter_In; split; auto. rewrite E. reflexivity.
Qed.

Lemma Inv_step P sets st :
  Inv P sets -> ~ In st P -> Inv (P ++ [st]) (split_step adj sets st).
Proof.
  intros [Hd Hc Hcov Hp Ho] Hst. unfold split_step.
  remember (filter (touches (adj st)) sets) as connected eqn:Econn.
  set (others := filter (fun S => negb (touches (adj st) S)) sets).
  set (U := match connected with
            | [] => nodupn (st :: adj st)
            | _ => nodupn (st :: concat connected) end).
  assert (Eres : match connected with
                 | [] => others ++ [nodupn (st :: adj st)]
                 | _ :: _ => others ++ [nodupn (st :: concat connected)] end = others ++ [U]).
  { unfold U. destruct connected; reflexivity. }
  rewrite Eres. clear Eres.
  (* membership in U *)
  assert (HU : forall x, In x U ->
             x = st \/ (exists C, In C connected /\ In x C) \/ (connected = [] /\ In x (adj st))).
  { intros x Hx. unfold U in Hx. destruct connected as [|C0 Cr].
    - apply (proj1 (nodupn_In _ _)) in Hx. simpl in Hx. destruct Hx as [<-|Hx]; auto.
    - apply (proj1 (nodupn_In _ _)) in Hx. simpl in Hx. destruct Hx as [<-|Hx]; auto.
      right. left. apply in_app_or in Hx. destruct Hx as [Hx|Hx].
      + exists C0. split; [left; reflexivity | exact Hx].
      + apply in_concat in Hx. destruct Hx as (C & HC & Hx). exists C. split; [right; exact HC | exact Hx]. }
  assert (stU : In st U).
  { unfold U. destruct connected; apply nodupn_In; left; reflexivity. }
  assert (connU : forall C x, In C connected -> In x C -> In x U).
  { intros C x HC Hx. unfold U. destruct connected as [|C0 Cr]; [destruct HC|].
    apply nodupn_In. right. apply in_concat. exists C. split; assumption. }
  assert (conn_in : forall C, In C connected -> In C sets /\ exists t, In t (adj st) /\ In t C).
  { intros C HC. rewrite Econn in HC. apply filter_In in HC. destruct HC as [H1 H2].
    apply touches_spec in H2. auto. }
  assert (oth_in : forall S, In S others -> In S sets /\ forall t, In t (adj st) -> ~ In t S).
  { intros S HS. apply filter_In in HS. destruct HS as [H1 H2]. split; [exact H1|].
    intros t Ht HtS. apply negb_true_iff in H2.
    assert (touches (adj st) S = true) by (apply touches_spec; eauto). congruence. }
  (* st is in no other set *)
  assert (st_not_other : forall S, In S others -> ~ In st S).
  { intros S HS HstS. destruct (oth_in S HS) as [HSs Hno].
    destruct (Ho S st HSs HstS) as [Hin|(p & HpP & HpS & Hadj)]; [contradiction|].
    apply (Hno p); [apply adj_sym; exact Hadj | exact HpS]. }
  (* every member of U reaches st *)
  assert (reachU : forall x, In x U -> Reach x st).
  { intros x Hx. destruct (HU x Hx) as [->|[(C & HC & HxC)|(_ & Hadj)]].
    - apply rt_refl.
    - destruct (conn_in C HC) as (HCs & t & Ht & HtC).
      eapply rt_trans; [apply (Hc C x t HCs HxC HtC)|]. apply rt_step. apply adj_sym. exact Ht.
    - apply rt_step. apply adj_sym. exact Hadj. }
  (* U is disjoint from the other sets *)
  assert (disjU : forall S, In S others -> disjoint S U).
  { intros S HS x HxS HxU. destruct (oth_in S HS) as [HSs Hno].
    destruct (HU x HxU) as [->|[(C & HC & HxC)|(_ & Hadj)]].
    - exact (st_not_other S HS HxS).
    - rewrite Econn in HC. exact (FOP_filter_split _ _ C S Hd HC HS x HxC HxS).
    - exact (Hno x Hadj HxS). }
  constructor.
  - (* disjointness *)
    apply FOP_snoc; [apply FOP_filter; exact Hd|]. exact disjU.
  - (* connectedness *)
    intros S x y HS Hx Hy. apply in_app_or in HS. destruct HS as [HS|[<-|[]]].
    + apply (Hc S x y); [apply (oth_in S HS) | exact Hx | exact Hy].
    + eapply rt_trans; [apply reachU; exact Hx | apply Reach_sym, reachU; exact Hy].
  - (* cover *)
    intros p Hp'. apply in_app_or in Hp'. destruct Hp' as [Hp'|[<-|[]]].
    + destruct (Hcov p Hp') as (S & HS & HpS).
      destruct (in_sets_split (touches (adj st)) sets S HS) as [HC|HO].
      * rewrite <- Econn in HC.
        exists U. split; [apply in_or_app; right; left; reflexivity | apply (connU S p HC HpS)].
      * exists S. split; [apply in_or_app; left; exact HO | exact HpS].
    + exists U. split; [apply in_or_app; right; left; reflexivity | exact stU].
  - (* adjacent processed pairs share their set *)
    assert (old_in_U : forall p, In p P -> In p U -> exists C, In C connected /\ In p C).
    { intros p HpP HpU. destruct (HU p HpU) as [->|[H|(Ec & Hadj)]]; [contradiction | exact H |].
      (* a processed neighbour of st lies in a set that touches adj st *)
      destruct (Hcov p HpP) as (S & HS & HpS).
      destruct (in_sets_split (touches (adj st)) sets S HS) as [HC|HO].
      - rewrite <- Econn, Ec in HC. destruct HC.
      - exfalso. exact (proj2 (oth_in S HO) p Hadj HpS). }
    assert (nbr_in_U : forall q, In q P -> In q (adj st) -> In q U).
    { intros q HqP Hadj. destruct (Hcov q HqP) as (S & HS & HqS).
      destruct (in_sets_split (touches (adj st)) sets S HS) as [HC|HO].
      - rewrite <- Econn in HC. apply (connU S q HC HqS).
      - exfalso. exact (proj2 (oth_in S HO) q Hadj HqS). }
    intros p q S Hp' Hq' Hadj HS HpS.
    apply in_app_or in Hp'. apply in_app_or in Hq'. apply in_app_or in HS.
    destruct Hp' as [Hp'|[<-|[]]]; destruct Hq' as [Hq'|[<-|[]]].
    + (* both old *)
      destruct HS as [HS|[<-|[]]].
      * apply (Hp p q S Hp' Hq' Hadj (proj1 (oth_in S HS)) HpS).
      * destruct (old_in_U p Hp' HpS) as (C & HC & HpC).
        apply (connU C q HC). apply (Hp p q C Hp' Hq' Hadj (proj1 (conn_in C HC)) HpC).
    + (* q = st *)
      assert (HpU : In p U) by (apply nbr_in_U; [exact Hp' | apply adj_sym; exact Hadj]).
      destruct HS as [HS|[<-|[]]]; [exfalso; exact (disjU S HS p HpS HpU) | exact stU].
    + (* p = st *)
      destruct HS as [HS|[<-|[]]]; [exfalso; exact (st_not_other S HS HpS)|].
      apply nbr_in_U; assumption.
    + (* both st *)
      exact HpS.
  - (* origin of the members *)
    intros S x HS Hx. apply in_app_or in HS. destruct HS as [HS|[<-|[]]].
    + destruct (Ho S x (proj1 (oth_in S HS)) Hx) as [H|(p & H1 & H2 & H3)].
      * left. apply in_or_app. left. exact H.
      * right. exists p. split; [apply in_or_app; left; exact H1 | auto].
    + destruct (HU x Hx) as [->|[(C & HC & HxC)|(_ & Hadj)]].
      * left. apply in_or_app. right. left. reflexivity.
      * destruct (Ho C x (proj1 (conn_in C HC)) HxC) as [H|(p & H1 & H2 & H3)].
        -- left. apply in_or_app. left. exact H.
        -- right. exists p. split; [apply in_or_app; left; exact H1|]. split; [apply (connU C p HC H2) | exact H3].
      * right. exists st. split; [apply in_or_app; right; left; reflexivity|]. split; [exact stU | exact Hadj].
Qed.

Lemma Inv_fold : forall (todo P : list nat) sets,
  Inv P sets -> NoDup (P ++ todo) -> Inv (P ++ todo) (fold_left (split_step adj) todo sets).
Proof.
  induction todo as [|st r IH]; intros P sets HI Hnd; simpl.
  - rewrite app_nil_r. exact HI.
  - replace (P ++ st :: r) with ((P ++ [st]) ++ r) by (rewrite <- app_assoc; reflexivity).
    apply IH.
    + apply Inv_step; [exact HI|]. intros Hin. apply NoDup_remove_2 in Hnd. apply Hnd.
      apply in_or_app. left. exact Hin.
    + rewrite <- app_assoc. exact Hnd.
Qed.

Theorem split_Inv : Inv structs (split_sets adj structs).
Proof. apply (Inv_fold structs [] [] Inv_nil). exact structs_nodup. Qed.

(* every structure appears in exactly one of the returned sets *)
Theorem split_partition :
  ForallOrdPairs disjoint (split_sets adj structs) /\
  (forall s, In s structs -> exists S, In S (split_sets adj structs) /\ In s S) /\
  (forall S x, In S (split_sets adj structs) -> In x S -> In x structs).
Proof.
  destruct split_Inv as [Hd Hc Hcov Hp Ho]. split; [exact Hd|]. split; [exact Hcov|].
  intros S x HS Hx. destruct (Ho S x HS Hx) as [H|(p & H1 & _ & H3)]; [exact H|].
  apply (adj_closed p x H1 H3).
Qed.

Lemma reach_in_structs a b : Reach a b -> In a structs -> In b structs.
Proof.
  induction 1 as [a b H|a|a b c _ I1 _ I2]; intros Ha;
    [apply (adj_closed a b Ha H) | exact Ha | auto].
Qed.

(* two structures share a set exactly when a chain of connections links them *)
Theorem split_connected s t :
  In s structs -> In t structs ->
  ((exists S, In S (split_sets adj structs) /\ In s S /\ In t S) <-> Reach s t).
Proof.
  intros Hs Ht. destruct split_Inv as [Hd Hc Hcov Hp Ho]. split.
  - intros (S & HS & H1 & H2). exact (Hc S s t HS H1 H2).
  - intros HR. destruct (Hcov s Hs) as (S & HS & HsS). exists S. split; [exact HS|]. split; [exact HsS|].
    (* sets are closed under adjacency, hence under Reach *)
    assert (closed : forall x y, In x structs -> In x S -> edge x y -> In y S).
    { intros x y Hx HxS Hxy. apply (Hp x y S Hx (adj_closed x y Hx Hxy) Hxy HS HxS). }
    clear Ht. revert Hs HsS. induction HR as [x y H|x|x y z HR1 IH1 HR2 IH2]; intros Hx HxS.
    + apply (closed x y Hx HxS H).
    + exact HxS.
    + apply IH2; [apply (reach_in_structs x y HR1 Hx) | apply IH1; assumption].
Qed.

End SplitProofs.
