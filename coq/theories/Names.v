(* Names.v — pin names (pin.py) and the name tables built from them (Model.update_pins,
   Structure.pin, Model.pin_mapping): two distinct pins with the same printable name are
   rejected, never mistaken for each other; renamed pins are addressable by the new names. *)
From Coq Require Import List String Bool Arith.
From Lekkersim Require Import Base.
Import ListNotations.
Open Scope string_scope.

Record pin := { basename : string; mode_name : option string }.

Definition pin_name (p : pin) : string :=
  match mode_name p with None => basename p | Some m => basename p ++ "_" ++ m end.

Definition ostr_eqb (a b : option string) : bool :=
  match a, b with
  | None, None => true
  | Some x, Some y => String.eqb x y
  | _, _ => false
  end.
Definition pin_eqb (p q : pin) : bool :=
  String.eqb (basename p) (basename q) && ostr_eqb (mode_name p) (mode_name q).

Lemma pin_eqb_spec p q : reflect (p = q) (pin_eqb p q).
Proof.
  destruct p as [b m], q as [b' m']; unfold pin_eqb; simpl.
  destruct (String.eqb_spec b b') as [->|Hb]; simpl; [|constructor; congruence].
  destruct m as [x|], m' as [y|]; simpl; try (constructor; congruence).
  destruct (String.eqb_spec x y) as [->|Hx]; constructor; congruence.
Qed.

(* Model.update_pins: the table name -> pin, refused when two pins map to the same name *)
Fixpoint name_table (pins : list pin) (acc : list (string * pin)) : result (list (string * pin)) :=
  match pins with
  | [] => Ok acc
  | p :: r =>
      if existsb (fun e => String.eqb (fst e) (pin_name p)) acc then Err ENameClash
      else name_table r (acc ++ [(pin_name p, p)])
  end.

Definition update_pins (pins : list pin) : result (list (string * pin)) := name_table pins [].

Fixpoint lookup (n : string) (t : list (string * pin)) : option pin :=
  match t with [] => None | (k, p) :: r => if String.eqb k n then Some p else lookup n r end.

(* Model.pin_mapping (rename) followed by the refresh of the name table *)
Definition rename_pins (ren : list (pin * pin)) (pins : list pin) : list pin :=
  map (fun p => match find (fun e => pin_eqb (fst e) p) ren with
                | Some e => snd e | None => p end) pins.
