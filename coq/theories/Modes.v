(* Modes.v — expand_mode, connect_all and the base/mode queries (C13).
   expand_mode: pin (p, mode i) gets index i*N + n(p); the matrix is block diagonal with one copy
   of the single-mode matrix per mode (model.py:47-66, 129-134, 264-290). *)
From Coq Require Import List Arith Lia Bool String.
From Lekkersim Require Import Field Matrix Base Names.
Import ListNotations.

Section Modes.
Variable K : cfield.

Definition expand_idx (N i n : nat) : nat := i * N + n.

Definition expand_S (N : nat) (S : mx K) : mx K :=
  fun r c => if Nat.eqb (r / N) (c / N) then S (r mod N) (c mod N) else f0 K.

(* the coefficient between (p, mode i) and (q, mode i') is the single-mode coefficient when the
   modes coincide and zero otherwise — for every number of modes, every size, every matrix *)
Theorem expand_coeff N S i i' n n' : (n < N)%nat -> (n' < N)%nat ->
  expand_S N S (expand_idx N i n) (expand_idx N i' n') = if Nat.eqb i i' then S n n' else f0 K.
Proof.
  intros Hn Hn'. unfold expand_S, expand_idx.
  assert (HN : N <> 0%nat) by lia.
  rewrite !Nat.div_add_l by exact HN. rewrite !(Nat.div_small _ N) by assumption. rewrite !Nat.add_0_r.
  destruct (Nat.eqb i i'); [|reflexivity].
  rewrite !(Nat.add_comm (_ * N)), !Nat.mod_add by exact HN. rewrite !Nat.mod_small by assumption. reflexivity.
Qed.

(* distinct (mode, pin) pairs get distinct indices below np * N *)
Theorem expand_idx_inj N i i' n n' : (n < N)%nat -> (n' < N)%nat ->
  expand_idx N i n = expand_idx N i' n' -> i = i' /\ n = n'.
Proof.
  unfold expand_idx. intros Hn Hn' E. assert (HN : N <> 0%nat) by lia.
  assert (Ei : i = i').
  { assert (H1 : ((i * N + n) / N = i)%nat) by (rewrite Nat.div_add_l, Nat.div_small by lia; lia).
    assert (H2 : ((i' * N + n') / N = i')%nat) by (rewrite Nat.div_add_l, Nat.div_small by lia; lia).
    rewrite E in H1. congruence. }
  subst i'. split; [reflexivity | lia].
Qed.
Theorem expand_idx_bound N np i n : (i < np)%nat -> (n < N)%nat -> (expand_idx N i n < np * N)%nat.
Proof. unfold expand_idx. intros. nia. Qed.
End Modes.

Arguments expand_S {K}.

(* ---- connect_all: exactly the modes the two structures have in common, like with like ---- *)
Open Scope string_scope.
Definition smem (m : string) (l : list string) : bool := existsb (String.eqb m) l.

Definition common_modes (modes1 modes2 : list string) : list string :=
  filter (fun m => smem m modes2) modes1.

Definition connect_all_links (b1 b2 : string) (modes1 modes2 : list string) : list (pin * pin) :=
  map (fun m => ({| basename := b1; mode_name := Some m |}, {| basename := b2; mode_name := Some m |}))
      (common_modes modes1 modes2).

Lemma smem_In m l : smem m l = true <-> In m l.
Proof.
  unfold smem. rewrite existsb_exists. split.
  - intros (x & Hx & E). apply String.eqb_eq in E. subst. exact Hx.
  - intros H. exists m. split; [exact H | apply String.eqb_refl].
Qed.

Theorem connect_all_pairs b1 b2 modes1 modes2 p q :
  In (p, q) (connect_all_links b1 b2 modes1 modes2) <->
  exists m, In m modes1 /\ In m modes2 /\
            p = {| basename := b1; mode_name := Some m |} /\ q = {| basename := b2; mode_name := Some m |}.
Proof.
  unfold connect_all_links, common_modes. rewrite in_map_iff. split.
  - intros (m & E & Hm). apply filter_In in Hm. destruct Hm as [H1 H2]. apply smem_In in H2.
    injection E as <- <-. exists m. auto.
  - intros (m & H1 & H2 & -> & ->). exists m. split; [reflexivity|]. apply filter_In.
    split; [exact H1 | apply smem_In; exact H2].
Qed.

(* ---- queries ---- *)
Fixpoint sdedup (l : list string) : list string :=
  match l with [] => [] | x :: r => if smem x r then sdedup r else x :: sdedup r end.

Definition pin_basenames (pins : list pin) : list string := sdedup (map basename pins).
Definition pin_modes (b : string) (pins : list pin) : list (option string) :=
  map mode_name (filter (fun p => String.eqb (basename p) b) pins).
Definition pins_of_base (b : string) (pins : list pin) : list pin :=
  filter (fun p => String.eqb (basename p) b) pins.

Lemma sdedup_In x l : In x (sdedup l) <-> In x l.
Proof.
  induction l as [|y r IH]; simpl; [tauto|]. destruct (smem y r) eqn:E.
  - rewrite IH. apply smem_In in E. split; [auto|]. intros [<-|H]; auto.
  - simpl. rewrite IH. tauto.
Qed.

(* the base names returned are exactly those of the pins the model / structure has *)
Theorem queries_basenames pins b : In b (pin_basenames pins) <-> exists p, In p pins /\ basename p = b.
Proof.
  unfold pin_basenames. rewrite sdedup_In, in_map_iff. split; intros (p & H1 & H2); exists p; auto.
Qed.
(* the modes returned for a base name are exactly the modes of the pins with that base name *)
Theorem queries_modes pins b m : In m (pin_modes b pins) <-> exists p, In p pins /\ basename p = b /\ mode_name p = m.
Proof.
  unfold pin_modes. rewrite in_map_iff. split.
  - intros (p & E & H). apply filter_In in H. destruct H as [H1 H2]. apply String.eqb_eq in H2. exists p. auto.
  - intros (p & H1 & H2 & H3). exists p. split; [exact H3|]. apply filter_In. split; [exact H1|]. apply String.eqb_eq. exact H2.
Qed.
Theorem queries_pins pins b p : In p (pins_of_base b pins) <-> In p pins /\ basename p = b.
Proof. unfold pins_of_base. rewrite filter_In, String.eqb_eq. tauto. Qed.
