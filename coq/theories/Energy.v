(* Energy.v — composition preserves passivity, losslessness and reciprocity (C08).
   Network-level argument: a "flux" defined on pins that cancels over every connection and has
   a sign (or vanishes) over every component has that sign (vanishes) over the free pins. *)
From Coq Require Import List Arith Lia Bool Field Ring Setoid Morphisms Permutation.
From Lekkersim Require Import Field Matrix Base Kernel KernelProofs Network Solve SolveProofs SolveComplete.
Import ListNotations.

Section Energy.
Variable K : cfield.
Hypothesis KL : cfield_laws K.

Notation "0" := (f0 K).
Notation "1" := (f1 K).
Infix "+" := (fadd K).
Infix "*" := (fmul K).
Infix "-" := (fsub K).
Infix "==" := (feq K) (at level 70).

Add Field Kfield5 : (F_ft K KL) (setoid (feq_equiv K KL) (F_ext K KL)).

(* squared modulus *)
Definition pw (z : K) : K := z * fconj K z.

Global Instance pw_Proper : Proper (feq K ==> feq K) pw.
Proof. intros x y H. unfold pw. rewrite H. reflexivity. Qed.

(* properties of one component (n ports, matrix S) *)
Definition mx_passive (n : nat) (S : mx K) : Prop :=
  forall v : vec K, fnonneg K (bigsum n (fun i => pw (v i)) - bigsum n (fun i => pw (mv n S v i))).
Definition mx_lossless (n : nat) (S : mx K) : Prop :=
  forall v : vec K, bigsum n (fun i => pw (v i)) == bigsum n (fun i => pw (mv n S v i)).
Definition mx_reciprocal (n : nat) (S : mx K) : Prop :=
  forall i j, (i < n)%nat -> (j < n)%nat -> S i j == S j i.

(* the usual unitarity condition S^H S = I implies losslessness in the above sense *)
Definition mx_unitary (n : nat) (S : mx K) : Prop :=
  forall j k, (j < n)%nat -> (k < n)%nat ->
    bigsum n (fun i => fconj K (S i j) * S i k) == if Nat.eqb j k then 1 else 0.

Lemma conj_bigsum n (f : nat -> K) : fconj K (bigsum n f) == bigsum n (fun i => fconj K (f i)).
Proof.
  induction n as [|n IH]; simpl; [apply (conj_0 K KL)|].
  rewrite (conj_add K KL), IH. reflexivity.
Qed.

Lemma unitary_lossless n (S : mx K) : mx_unitary n S -> mx_lossless n S.
Proof.
  intros HU v. symmetry.
  (* expand |(Sv)_i|^2 into a triple sum and reorder *)
  rewrite (bigsum_ext K KL n (fun i => pw (mv n S v i))
             (fun i => bigsum n (fun k => bigsum n (fun j =>
                         (v k * fconj K (v j)) * (fconj K (S i j) * S i k))))).
  2:{ intros i Hi. unfold pw, mv. rewrite conj_bigsum.
      rewrite <- (bigsum_scal_r K KL). apply (bigsum_ext K KL). intros k Hk.
      rewrite <- (bigsum_scal_l K KL). apply (bigsum_ext K KL). intros j Hj.
      rewrite (conj_mul K KL). ring. }
  rewrite (bigsum_swap K KL n n).
  rewrite (bigsum_ext K KL n _ (fun k => v k * fconj K (v k))).
  2:{ intros k Hk. rewrite (bigsum_swap K KL n n).
      rewrite (bigsum_ext K KL n _ (fun j => (v k * fconj K (v j)) * (if Nat.eqb j k then 1 else 0))).
      2:{ intros j Hj. rewrite (bigsum_scal_l K KL). rewrite (HU j k Hj Hk). reflexivity. }
      apply (bigsum_delta_r K KL n k (fun j => v k * fconj K (v j))). exact Hk. }
  reflexivity.
Qed.

(* output of a result at one of its pins for an incoming wave assignment *)
Definition outw (T : lst K) (a : waves K) (p : spin) : K :=
  bigsum (length (l_pins T)) (fun j => l_S T (pos p (l_pins T)) j * a (nth j (l_pins T) dpin)).

(* ---- sums ---- *)
Lemma lsum_0 l (f : spin -> K) : (forall x, In x l -> f x == 0) -> lsum K l f == 0.
Proof.
  induction l as [|x r IH]; intros H; simpl; [reflexivity|].
  rewrite (H x (or_introl eq_refl)), IH; [ring|]. intros y Hy. apply H. right. exact Hy.
Qed.

Lemma lsum_add l (f g : spin -> K) : lsum K l (fun x => f x + g x) == lsum K l f + lsum K l g.
Proof. induction l as [|x r IH]; simpl; [ring|]. rewrite IH. ring. Qed.

Lemma lsum_sub l (f g : spin -> K) : lsum K l (fun x => f x - g x) == lsum K l f - lsum K l g.
Proof. induction l as [|x r IH]; simpl; [ring|]. rewrite IH. ring. Qed.

Lemma lsum_nonneg l (f : spin -> K) : (forall x, In x l -> fnonneg K (f x)) -> fnonneg K (lsum K l f).
Proof.
  induction l as [|x r IH]; intros H; simpl; [apply (nonneg_0 K KL)|].
  apply (nonneg_add K KL); [apply H; left; reflexivity|]. apply IH. intros y Hy. apply H. right. exact Hy.
Qed.

Lemma lsum_conns (cs : list conn) (f : spin -> K) :
  lsum K (conn_ends cs) f == lsum K (map fst cs) f + lsum K (map snd cs) f.
Proof. unfold conn_ends. apply (lsum_app K KL). Qed.

Lemma lsum_pairs_0 (cs : list conn) (f : spin -> K) :
  (forall x y, In (x, y) cs -> f x + f y == 0) ->
  lsum K (map fst cs) f + lsum K (map snd cs) f == 0.
Proof.
  induction cs as [|[x y] r IH]; intros H; simpl; [ring|].
  transitivity ((f x + f y) + (lsum K (map fst r) f + lsum K (map snd r) f)); [ring|].
  rewrite (H x y (or_introl eq_refl)), IH; [ring|]. intros x' y' Hin. apply H. right. exact Hin.
Qed.

(* ---- flux balance ---- *)
Definition free_pins (net : netlist K) : list spin :=
  keep (conn_ends (conns net)) (allpins (comps net)).

Lemma flux_balance (net : netlist K) (phi : spin -> K) :
  NoDup (conn_ends (conns net)) -> NoDup (allpins (comps net)) ->
  (forall p, In p (conn_ends (conns net)) -> In p (allpins (comps net))) ->
  (forall x y, In (x, y) (conns net) -> phi x + phi y == 0) ->
  lsum K (allpins (comps net)) phi == lsum K (free_pins net) phi.
Proof.
  intros Hce Hnd Hends Hpair.
  rewrite (lsum_perm K KL _ _ phi (keep_perm _ _ Hnd Hce Hends)).
  rewrite (lsum_app K KL), lsum_conns, (lsum_pairs_0 _ _ Hpair). unfold free_pins. ring.
Qed.

Lemma free_pins_spec (net : netlist K) p :
  NoDup (conn_ends (conns net)) ->
  (In p (free_pins net) <->
   In p (allpins (comps net)) /\ partner (conns net) p = None).
Proof.
  intros Hce. unfold free_pins. rewrite keep_In. split; intros [H1 H2]; split; try exact H1.
  - apply partner_none_iff. intros [x y] Hin. destruct (In_conn_ends _ _ _ Hin) as [Hx Hy].
    simpl. split; intros ->; contradiction.
  - intros Hin. unfold conn_ends in Hin. apply in_app_or in Hin.
    destruct Hin as [Hin|Hin]; apply in_map_iff in Hin; destruct Hin as ([x y] & E & Hin);
      simpl in E; subst; destruct (partner_None _ _ H2 _ Hin) as [Ha Hb]; simpl in *; congruence.
Qed.

(* sums over all pins, component by component *)
Lemma lsum_allpins_0 (cl : list (lst K)) (phi : spin -> K) :
  (forall L, In L cl -> lsum K (l_pins L) phi == 0) ->
  lsum K (allpins cl) phi == 0.
Proof.
  induction cl as [|c r IH]; intros H; unfold allpins; simpl; [reflexivity|].
  rewrite (lsum_app K KL). rewrite (H c (or_introl eq_refl)).
  fold (allpins r). rewrite IH; [ring|]. intros c' Hc. apply H. right. exact Hc.
Qed.

Lemma lsum_allpins_nonneg (cl : list (lst K)) (phi : spin -> K) :
  (forall L, In L cl -> fnonneg K (lsum K (l_pins L) phi)) ->
  fnonneg K (lsum K (allpins cl) phi).
Proof.
  induction cl as [|c r IH]; intros H; unfold allpins; simpl; [apply (nonneg_0 K KL)|].
  rewrite (lsum_app K KL). apply (nonneg_add K KL); [apply H; left; reflexivity|].
  fold (allpins r). apply IH. intros c' Hc. apply H. right. exact Hc.
Qed.

(* a component, indexwise *)
Definition vin (L : lst K) (a : waves K) : vec K := fun j => a (nth j (l_pins L) dpin).

Lemma lsum_comp (L : lst K) (f : spin -> K) :
  lsum K (l_pins L) f == bigsum (length (l_pins L)) (fun i => f (nth i (l_pins L) dpin)).
Proof. symmetry. apply (bigsum_nth K KL). Qed.

Lemma Sem_comp (L : lst K) a b i : Sem L a b -> (i < length (l_pins L))%nat ->
  b (nth i (l_pins L) dpin) == mv (length (l_pins L)) (l_S L) (vin L a) i.
Proof. intros HS Hi. exact (HS i Hi). Qed.

(* ---- passivity / losslessness of the network ---- *)
Definition pflux (a b : waves K) (p : spin) : K := pw (a p) - pw (b p).

Lemma pflux_pair (net : netlist K) u a b x y :
  wave_solution net u a b -> In (x, y) (conns net) -> pflux a b x + pflux a b y == 0.
Proof.
  intros (_ & E2 & _) Hin. destruct (E2 x y Hin) as [H1 H2]. unfold pflux. rewrite H1, H2. ring.
Qed.

Lemma pflux_comp (L : lst K) a b : Sem L a b ->
  lsum K (l_pins L) (pflux a b)
  == bigsum (length (l_pins L)) (fun i => pw (vin L a i))
   - bigsum (length (l_pins L)) (fun i => pw (mv (length (l_pins L)) (l_S L) (vin L a) i)).
Proof.
  intros HS. rewrite lsum_comp. unfold pflux. rewrite (bigsum_sub K KL).
  rewrite (bigsum_ext K KL (length (l_pins L)) (fun i => pw (b (nth i (l_pins L) dpin)))
             (fun i => pw (mv (length (l_pins L)) (l_S L) (vin L a) i))).
  2:{ intros i Hi. rewrite (Sem_comp L a b i HS Hi). reflexivity. }
  reflexivity.
Qed.

Theorem network_passive (net : netlist K) u a b :
  NoDup (conn_ends (conns net)) -> NoDup (allpins (comps net)) ->
  (forall p, In p (conn_ends (conns net)) -> In p (allpins (comps net))) ->
  (forall L, In L (comps net) -> mx_passive (length (l_pins L)) (l_S L)) ->
  wave_solution net u a b ->
  fnonneg K (lsum K (free_pins net) (pflux a b)).
Proof.
  intros Hce Hnd Hends Hpass W.
  rewrite <- (flux_balance net (pflux a b) Hce Hnd Hends (fun x y => pflux_pair net u a b x y W)).
  apply lsum_allpins_nonneg. intros c Hc. destruct W as (E1 & _ & _).
  rewrite (pflux_comp c a b (E1 c Hc)). apply (Hpass c Hc).
Qed.

Theorem network_lossless (net : netlist K) u a b :
  NoDup (conn_ends (conns net)) -> NoDup (allpins (comps net)) ->
  (forall p, In p (conn_ends (conns net)) -> In p (allpins (comps net))) ->
  (forall L, In L (comps net) -> mx_lossless (length (l_pins L)) (l_S L)) ->
  wave_solution net u a b ->
  lsum K (free_pins net) (pflux a b) == 0.
Proof.
  intros Hce Hnd Hends Hl W.
  rewrite <- (flux_balance net (pflux a b) Hce Hnd Hends (fun x y => pflux_pair net u a b x y W)).
  apply lsum_allpins_0. intros c Hc. destruct W as (E1 & _ & _).
  rewrite (pflux_comp c a b (E1 c Hc)). rewrite (Hl c Hc (vin c a)). ring.
Qed.

(* ---- in terms of the solved result ---- *)
Lemma result_pins_perm (net : netlist K) sched T : solve net sched = Ok T ->
  Permutation (free_pins net) (l_pins T).
Proof.
  intros H. destruct (solve_pins K net sched T H) as [NT PT].
  apply (solve_inv K) in H. destruct H as (Hce & _ & _ & Hnd & _).
  apply NoDup_Permutation; [apply NoDup_filter; exact Hnd | exact NT |].
  intros p. rewrite (free_pins_spec net p Hce), PT. reflexivity.
Qed.

Lemma result_flux (net : netlist K) sched T u a b :
  solve net sched = Ok T -> wave_solution net u a b ->
  lsum K (free_pins net) (pflux a b)
  == lsum K (l_pins T) (fun p => pw (ext (expo net) u p))
   - lsum K (l_pins T) (fun p => pw (outw T (ext (expo net) u) p)).
Proof.
  intros H W. pose proof (solve_sound K KL net sched T H u a b W) as R.
  destruct (solve_pins K net sched T H) as [NT PT].
  rewrite (lsum_perm K KL _ _ _ (result_pins_perm net sched T H)).
  rewrite <- lsum_sub. apply (lsum_ext K KL). intros p Hp. unfold pflux.
  destruct W as (_ & _ & E3). rewrite (E3 p (proj1 (proj1 (PT p) Hp)) (proj2 (proj1 (PT p) Hp))).
  pose proof (R (pos p (l_pins T)) (pos_lt p _ Hp)) as Rp. rewrite nth_pos in Rp by exact Hp.
  rewrite Rp. reflexivity.
Qed.

(* all components passive: for every excitation of the exposed pins the power leaving all free
   pins does not exceed the power entering (any exposure subset) *)
Theorem solve_passive (net : netlist K) sched T :
  solve net sched = Ok T ->
  (forall L, In L (comps net) -> mx_passive (length (l_pins L)) (l_S L)) ->
  forall u, fnonneg K (lsum K (l_pins T) (fun p => pw (ext (expo net) u p))
                       - lsum K (l_pins T) (fun p => pw (outw T (ext (expo net) u) p))).
Proof.
  intros H Hp u. destruct (solve_complete K KL net sched T u H) as (a & b & W).
  rewrite <- (result_flux net sched T u a b H W).
  pose proof H as H'. apply (solve_inv K) in H'. destruct H' as (Hce & _ & _ & Hnd & Hends).
  exact (network_passive net u a b Hce Hnd Hends Hp W).
Qed.

(* all components lossless: total output power equals total input power *)
Theorem solve_lossless (net : netlist K) sched T :
  solve net sched = Ok T ->
  (forall L, In L (comps net) -> mx_lossless (length (l_pins L)) (l_S L)) ->
  forall u, lsum K (l_pins T) (fun p => pw (ext (expo net) u p))
            == lsum K (l_pins T) (fun p => pw (outw T (ext (expo net) u) p)).
Proof.
  intros H Hl u. destruct (solve_complete K KL net sched T u H) as (a & b & W).
  pose proof (result_flux net sched T u a b H W) as RF.
  pose proof H as H'. apply (solve_inv K) in H'. destruct H' as (Hce & _ & _ & Hnd & Hends).
  rewrite (network_lossless net u a b Hce Hnd Hends Hl W) in RF.
  set (x := lsum K (l_pins T) (fun p => pw (ext (expo net) u p))) in *.
  set (y := lsum K (l_pins T) (fun p => pw (outw T (ext (expo net) u) p))) in *.
  transitivity ((x - y) + y); [ring|]. rewrite <- RF. ring.
Qed.

(* ---- reciprocity ---- *)
Definition rflux (a1 b1 a2 b2 : waves K) (p : spin) : K := a1 p * b2 p - a2 p * b1 p.

Lemma rflux_comp (L : lst K) a1 b1 a2 b2 :
  mx_reciprocal (length (l_pins L)) (l_S L) -> Sem L a1 b1 -> Sem L a2 b2 ->
  lsum K (l_pins L) (rflux a1 b1 a2 b2) == 0.
Proof.
  intros Hr S1 S2. rewrite lsum_comp. unfold rflux. rewrite (bigsum_sub K KL).
  set (n := length (l_pins L)) in *.
  rewrite (bigsum_ext K KL n (fun i => a1 (nth i (l_pins L) dpin) * b2 (nth i (l_pins L) dpin))
             (fun i => bigsum n (fun j => vin L a1 i * l_S L i j * vin L a2 j))).
  2:{ intros i Hi. rewrite (Sem_comp L a2 b2 i S2 Hi). unfold mv. fold n.
      rewrite <- (bigsum_scal_l K KL). apply (bigsum_ext K KL). intros j _. unfold vin. ring. }
  rewrite (bigsum_ext K KL n (fun i => a2 (nth i (l_pins L) dpin) * b1 (nth i (l_pins L) dpin))
             (fun i => bigsum n (fun j => vin L a1 j * l_S L j i * vin L a2 i))).
  2:{ intros i Hi. rewrite (Sem_comp L a1 b1 i S1 Hi). unfold mv. fold n.
      rewrite <- (bigsum_scal_l K KL). apply (bigsum_ext K KL). intros j Hj.
      rewrite (Hr i j Hi Hj). unfold vin. ring. }
  rewrite (bigsum_swap K KL n n (fun i j => vin L a1 j * l_S L j i * vin L a2 i)). ring.
Qed.

Lemma rflux_pair (net net' : netlist K) u1 u2 a1 b1 a2 b2 x y :
  conns net' = conns net ->
  wave_solution net u1 a1 b1 -> wave_solution net' u2 a2 b2 -> In (x, y) (conns net) ->
  rflux a1 b1 a2 b2 x + rflux a1 b1 a2 b2 y == 0.
Proof.
  intros EC (_ & E2 & _) (_ & E2' & _) Hin. rewrite EC in E2'.
  destruct (E2 x y Hin) as [H1 H2]. destruct (E2' x y Hin) as [G1 G2].
  unfold rflux. rewrite H1, H2, G1, G2. ring.
Qed.

Lemma sound_col (net : netlist K) sched T q a b p :
  solve net sched = Ok T -> wave_solution (with_expo K net [q]) (fun _ => 1) a b ->
  In p (l_pins T) -> In q (l_pins T) -> b p == coeff T p q.
Proof.
  intros H W HpT HqT.
  destruct (solve_pins K net sched T H) as [NT _].
  assert (H' : solve (with_expo K net [q]) sched = Ok T) by exact H.
  pose proof (solve_sound K KL _ sched T H' _ a b W) as R.
  pose proof (R (pos p (l_pins T)) (pos_lt _ _ HpT)) as E. rewrite nth_pos in E by exact HpT.
  rewrite E. unfold coeff.
  rewrite (bigsum_ext K KL _ _ (fun j => l_S T (pos p (l_pins T)) j
                                         * (if Nat.eqb j (pos q (l_pins T)) then 1 else 0))).
  2:{ intros j Hj. unfold ext. simpl.
      destruct (spin_eqb_spec q (nth j (l_pins T) dpin)) as [Eq|Eq]; simpl.
      - rewrite Eq, pos_nth by assumption. rewrite Nat.eqb_refl. reflexivity.
      - destruct (Nat.eqb_spec j (pos q (l_pins T))) as [->|_]; [|reflexivity].
        exfalso. apply Eq. rewrite nth_pos by exact HqT. reflexivity. }
  apply (bigsum_delta_r K KL). apply pos_lt. exact HqT.
Qed.

Lemma lsum_delta l (q : spin) (f : spin -> K) : NoDup l -> In q l ->
  lsum K l (fun x => (if spin_eqb q x then 1 else 0) * f x) == f q.
Proof.
  induction l as [|x r IH]; intros Hnd Hin; [destruct Hin|]. simpl.
  inversion Hnd as [|? ? Hx Hr]; subst.
  destruct (spin_eqb_spec q x) as [->|Hne].
  - rewrite lsum_0; [ring|]. intros y Hy. destruct (spin_eqb_spec x y) as [->|_]; [contradiction|ring].
  - destruct Hin as [->|Hin]; [congruence|]. rewrite (IH Hr Hin). ring.
Qed.

Theorem solve_reciprocal (net : netlist K) sched T :
  solve net sched = Ok T ->
  (forall L, In L (comps net) -> mx_reciprocal (length (l_pins L)) (l_S L)) ->
  forall p q, In p (l_pins T) -> In q (l_pins T) -> coeff T p q == coeff T q p.
Proof.
  intros H Hr p q Hp Hq.
  destruct (solve_complete K KL (with_expo K net [q]) sched T (fun _ => 1) H) as (a1 & b1 & W1).
  destruct (solve_complete K KL (with_expo K net [p]) sched T (fun _ => 1) H) as (a2 & b2 & W2).
  pose proof H as H'. apply (solve_inv K) in H'. destruct H' as (Hce & _ & _ & Hnd & Hends).
  destruct (solve_pins K net sched T H) as [NT PT].
  (* the reciprocity flux vanishes over the free pins *)
  assert (F0 : lsum K (free_pins net) (rflux a1 b1 a2 b2) == 0).
  { rewrite <- (flux_balance net (rflux a1 b1 a2 b2) Hce Hnd Hends).
    - apply lsum_allpins_0. intros c Hc. destruct W1 as (E1 & _ & _). destruct W2 as (E1' & _ & _).
      apply rflux_comp; [apply Hr; exact Hc | apply E1; exact Hc | apply E1'; exact Hc].
    - intros x y Hin.
      apply (rflux_pair (with_expo K net [q]) (with_expo K net [p]) _ _ a1 b1 a2 b2 x y
               eq_refl W1 W2 Hin). }
  rewrite (lsum_perm K KL _ _ _ (result_pins_perm net sched T H)) in F0.
  (* on the free pins a1 = delta_q and a2 = delta_p *)
  assert (F1 : lsum K (l_pins T) (rflux a1 b1 a2 b2)
               == lsum K (l_pins T) (fun x => (if spin_eqb q x then 1 else 0) * b2 x)
                - lsum K (l_pins T) (fun x => (if spin_eqb p x then 1 else 0) * b1 x)).
  { rewrite <- lsum_sub. apply (lsum_ext K KL). intros x Hx. unfold rflux.
    destruct W1 as (_ & _ & E3). destruct W2 as (_ & _ & E3').
    pose proof (proj2 (proj1 (PT x) Hx)) as Hn. pose proof (proj1 (proj1 (PT x) Hx)) as Hi.
    rewrite (E3 x Hi Hn), (E3' x Hi Hn). unfold ext; simpl. rewrite !orb_false_r. reflexivity. }
  rewrite F1 in F0. rewrite (lsum_delta _ q b2 NT Hq), (lsum_delta _ p b1 NT Hp) in F0.
  rewrite <- (sound_col net sched T q a1 b1 p H W1 Hp Hq).
  rewrite <- (sound_col net sched T p a2 b2 q H W2 Hq Hp).
  transitivity ((b2 q - b1 p) + b1 p); [|ring]. rewrite F0. ring.
Qed.

End Energy.
