(* Sweep.v — array-valued parameters (C04): length normalisation and broadcast of Solver.solve
   (sol.py:365-378) / Model.solve (model.py:375-390), and the sweep as the stack of the scalar
   solves.  A parameter value is a non-empty list (a scalar is a list of length 1). *)
From Coq Require Import List Arith Lia Bool QArith.
From Lekkersim Require Import Base Params.
Import ListNotations.

Definition sdict := list (nat * list val).

(* ns: the common length of the arrays that are not of length 1 *)
Fixpoint common_len (d : sdict) (ns : nat) : result nat :=
  match d with
  | [] => Ok ns
  | (_, l) :: r =>
      let n := length l in
      if Nat.eqb n 1 then common_len r ns
      else if Nat.eqb ns 1 then common_len r n
      else if Nat.eqb ns n then common_len r ns
      else Err EShape
  end.

Definition bcast (ns : nat) (l : list val) : list val :=
  if Nat.eqb (length l) 1 then repeat (hd 0%Q l) ns else l.

Definition normalise (d : sdict) : result (nat * sdict) :=
  do ns <- common_len d 1; Ok (ns, map (fun kv => (fst kv, bcast ns (snd kv))) d).

(* the scalar parameter assignment of sweep point k *)
Definition point (k : nat) (d : sdict) : dict := map (fun kv => (fst kv, nth k (snd kv) 0%Q)) d.

Section Sweep.
Context {A : Type}.
Variable scalar_solve : dict -> A.

Definition sweep_solve (d : sdict) : result (list A) :=
  do nd <- normalise d; Ok (map (fun k => scalar_solve (point k (snd nd))) (seq 0 (fst nd))).
End Sweep.

Lemma common_len_mono d : forall ns n, common_len d ns = Ok n -> ns = 1%nat \/ n = ns.
Proof.
  induction d as [|[k l] r IH]; intros ns n H; simpl in H.
  - injection H as <-. auto.
  - destruct (Nat.eqb_spec (length l) 1); [apply IH; exact H|].
    destruct (Nat.eqb_spec ns 1); [auto|].
    destruct (Nat.eqb_spec ns (length l)); [apply IH; exact H | discriminate].
Qed.

(* every array of length > 1 has the common length *)
Lemma common_len_spec d : forall ns n, common_len d ns = Ok n ->
  forall k l, In (k, l) d -> length l = 1%nat \/ length l = n.
Proof.
  induction d as [|[k0 l0] r IH]; intros ns n H k l Hin; [destruct Hin|]. simpl in H.
  destruct Hin as [E|Hin].
  - injection E as -> ->.
    destruct (Nat.eqb_spec (length l) 1); [auto|].
    destruct (Nat.eqb_spec ns 1).
    + right. destruct (common_len_mono r _ _ H) as [E1|E1]; [congruence | auto].
    + destruct (Nat.eqb_spec ns (length l)); [|discriminate]. right.
      destruct (common_len_mono r _ _ H) as [E1|E1]; congruence.
  - destruct (Nat.eqb_spec (length l0) 1); [eapply IH; eassumption|].
    destruct (Nat.eqb_spec ns 1); [eapply IH; eassumption|].
    destruct (Nat.eqb_spec ns (length l0)); [eapply IH; eassumption | discriminate].
Qed.

Lemma common_len_err d : forall ns e, common_len d ns = Err e -> e = EShape.
Proof.
  induction d as [|[k l] r IH]; intros ns e H; simpl in H; [discriminate|].
  destruct (Nat.eqb (length l) 1); [eapply IH; eassumption|].
  destruct (Nat.eqb ns 1); [eapply IH; eassumption|].
  destruct (Nat.eqb ns (length l)); [eapply IH; eassumption | congruence].
Qed.

(* arrays of two different lengths > 1 are rejected *)
Theorem sweep_reject d k1 l1 k2 l2 :
  In (k1, l1) d -> In (k2, l2) d ->
  length l1 <> 1%nat -> length l2 <> 1%nat -> length l1 <> length l2 ->
  normalise d = Err EShape.
Proof.
  intros H1 H2 N1 N2 Hne. unfold normalise.
  destruct (common_len d 1) as [n|e] eqn:E; simpl.
  - exfalso. destruct (common_len_spec d 1 n E k1 l1 H1) as [|E1]; [contradiction|].
    destruct (common_len_spec d 1 n E k2 l2 H2) as [|E2]; [contradiction|]. congruence.
  - rewrite (common_len_err d 1%nat e E). reflexivity.
Qed.

Fixpoint sget (name : nat) (d : sdict) : option (list val) :=
  match d with [] => None | (n, l) :: r => if Nat.eqb n name then Some l else sget name r end.

Lemma pget_point_map k name (d : sdict) (f : list val -> list val) :
  pget name (point k (map (fun kv => (fst kv, f (snd kv))) d))
  = match sget name d with Some l => Some (nth k (f l) 0%Q) | None => None end.
Proof.
  induction d as [|[n l] r IH]; simpl; [reflexivity|].
  destruct (Nat.eqb n name); [reflexivity | exact IH].
Qed.

(* sweep index k returns what the scalar solve returns for the k-th value of every parameter,
   scalars and length-1 arrays being broadcast *)
Theorem sweep_pointwise {A} (f : dict -> A) d l :
  sweep_solve f d = Ok l ->
  exists ns d', normalise d = Ok (ns, d') /\ length l = ns /\
    forall k dflt, (k < ns)%nat ->
      nth k l dflt = f (point k d') /\
      forall name vs, sget name d = Some vs ->
        pget name (point k d') = Some (if Nat.eqb (length vs) 1 then hd 0%Q vs else nth k vs 0%Q).
Proof.
  unfold sweep_solve. intros H. apply bind_ok in H. destruct H as ([ns d'] & Hn & H). injection H as <-.
  exists ns, d'. split; [exact Hn|]. simpl. split; [rewrite map_length, seq_length; reflexivity|].
  intros k dflt Hk. split.
  - rewrite nth_indep with (d' := f (point 0 d')) by (rewrite map_length, seq_length; exact Hk).
    rewrite (map_nth (fun k0 => f (point k0 d')) (seq 0 ns) 0%nat). rewrite seq_nth by exact Hk. reflexivity.
  - intros name vs Hs. unfold normalise in Hn. apply bind_ok in Hn. destruct Hn as (ns' & _ & Hn).
    injection Hn as <- <-. rewrite (pget_point_map k name d (bcast ns')), Hs. unfold bcast.
    destruct (Nat.eqb (length vs) 1); [|reflexivity]. f_equal.
    clear -Hk. revert k Hk. induction ns' as [|n IH]; intros k Hk; [lia|].
    destruct k; simpl; [reflexivity | apply IH; lia].
Qed.
