(* Params.v — how parameter values reach a component (C05): Structure.update_params (renaming with
   shielding), Model.update_params / Solver.update_params (precedence, add_param), add_structure
   (collection of defaults).  Names are numbers; values are rationals. *)
From Coq Require Import List Arith Lia Bool QArith.
Import ListNotations.

Definition val := Q.
Definition dict := list (nat * val).

Fixpoint pget (k : nat) (d : dict) : option val :=
  match d with [] => None | (k', v) :: r => if Nat.eqb k' k then Some v else pget k r end.
Fixpoint pset (k : nat) (v : val) (d : dict) : dict :=
  match d with
  | [] => [(k, v)]
  | (k', v') :: r => if Nat.eqb k' k then (k, v) :: r else (k', v') :: pset k v r
  end.
Fixpoint ppop (k : nat) (d : dict) : dict :=
  match d with [] => [] | (k', v) :: r => if Nat.eqb k' k then r else (k', v) :: ppop k r end.
Definition pupdate (d d' : dict) : dict := fold_left (fun acc kv => pset (fst kv) (snd kv) acc) d' d.
Definition pmem (k : nat) (d : dict) : bool := match pget k d with Some _ => true | None => false end.

Definition rmap := list (nat * nat).     (* Structure.param_mapping: new name -> old name *)
Definition news (m : rmap) : list nat := map fst m.
Definition olds (m : rmap) : list nat := map snd m.
Definition inl (k : nat) (l : list nat) : bool := existsb (Nat.eqb k) l.

(* Structure.update_params after the fix (known_findings F03): every renamed name is taken from
   the incoming dictionary, every old name is shielded, all at once *)
Definition rename_shield (m : rmap) (d : dict) : dict :=
  let base := filter (fun kv => negb (inl (fst kv) (news m)) && negb (inl (fst kv) (olds m))) d in
  fold_left (fun acc no => match pget (fst no) d with
                           | Some v => pset (snd no) v acc
                           | None => acc end) m base.

(* the loop as found: one pair at a time on the live copy *)
Definition rename_asfound (m : rmap) (d : dict) : dict :=
  fold_left (fun u no =>
     let u1 := ppop (snd no) u in
     if pmem (fst no) d then
       match pget (fst no) u1 with
       | Some v => pset (snd no) v (ppop (fst no) u1)
       | None => u1     (* Python: KeyError *)
       end
     else u1) m d.

(* Model.update_params: own defaults, then what arrives *)
Definition model_update (defaults incoming : dict) : dict := pupdate defaults incoming.

(* Solver.update_params.  add_param definitions: old name := f(args); the arguments take the
   explicit value, else the current solver default, else the default given at definition *)
Record addp := { ap_name : nat; ap_fun : nat; ap_args : dict }.

Section Fn.
Variable fn : nat -> dict -> val.      (* the user's functions, by number *)

Definition addp_value (defaults kw : dict) (a : addp) : val :=
  fn (ap_fun a)
     (map (fun kv => (fst kv, match pget (fst kv) kw with
                              | Some v => v
                              | None => match pget (fst kv) defaults with
                                        | Some v => v | None => snd kv end end)) (ap_args a)).

Definition solver_update (defaults : dict) (adds : list addp) (kw : dict) : dict :=
  pupdate (pupdate defaults kw) (map (fun a => (ap_name a, addp_value defaults kw a)) adds).

End Fn.

(* add_structure: defaults of the placed model/solver, under their new names *)
Definition inv_name (m : rmap) (old : nat) : nat :=
  match find (fun no => Nat.eqb (snd no) old) m with Some no => fst no | None => old end.
Definition collect_defaults (m : rmap) (child : dict) (mine : dict) : dict :=
  pupdate mine (map (fun kv => (inv_name m (fst kv), snd kv)) child).

(* lookup of the old name behind a new one / the new name in front of an old one *)
Definition new_of (m : rmap) (old : nat) : option nat :=
  match find (fun no => Nat.eqb (snd no) old) m with Some no => Some (fst no) | None => None end.

(* what a renaming should deliver under key k — the specification *)
Definition rename_spec (m : rmap) (d : dict) (k : nat) : option val :=
  match new_of m k with
  | Some n => pget n d
  | None => if inl k (news m) then None else pget k d
  end.

Definition injective (m : rmap) : Prop := NoDup (news m) /\ NoDup (olds m).

(* ---- hierarchies of solvers with probe leaves: which value each leaf receives ---- *)
(* a leaf that reveals EVERYTHING it received: its transmission is a weighted sum over all keys of
   its working dictionary (like UserWaveguide / TH_PhaseShifter, which hand all their parameters to
   a user function) *)
Definition spy_weight (k : nat) : val := (1 # (Pos.of_nat (2 ^ (k + 1))))%Q.
Definition spy_value (d : dict) : val :=
  fold_right (fun k acc => (match pget k d with Some v => spy_weight k * v | None => 0 end + acc)%Q)
             0%Q (seq 0 8).

Inductive ptree :=
| PLeaf (pname : nat) (mdefault : val)
| PSpy (sdefaults : dict)
| PSol (children : list (rmap * ptree)) (sdefaults : dict) (adds : list addp) (sdefaults_after : dict)
       (sreplaced : option dict).
(* set_param calls before / after the add_param definitions; set_default_params (replacing the whole
   dictionary) after everything else *)

Section Deliver.
Variable fn : nat -> dict -> val.

(* default_params of a node as seen by whoever places it *)
Fixpoint node_defaults (t : ptree) : dict :=
  match t with
  | PLeaf n d => [(n, d)]
  | PSpy sd => sd
  | PSol children sdef adds sdef2 srep =>
      match srep with Some d => d | None =>
      let base := (fix go (l : list (rmap * ptree)) (acc : dict) : dict :=
                     match l with
                     | [] => acc
                     | (m, c) :: r => go r (collect_defaults m (node_defaults c) acc)
                     end) children [] in
      let base1 := pupdate base sdef in
      pupdate (fold_left (fun acc a => pupdate (ppop (ap_name a) acc) (ap_args a)) adds base1) sdef2
      end
  end.

(* the values received by the leaves, depth first *)
Fixpoint deliver (t : ptree) (incoming : dict) : list (option val) :=
  match t with
  | PLeaf n d => [pget n (model_update [(n, d)] incoming)]
  | PSpy sd => [Some (spy_value (model_update sd incoming))]
  | PSol children sdef adds sdef2 _ =>
      let pd := solver_update fn (node_defaults t) adds incoming in
      (fix go (l : list (rmap * ptree)) : list (option val) :=
         match l with
         | [] => []
         | (m, c) :: r => deliver c (rename_shield m pd) ++ go r
         end) children
  end.
End Deliver.

(* ---- the working copy of a model's parameters across solves (C06) ---- *)
(* as found: the working dictionary is only ever updated, so a key given once survives *)
Definition upd_asfound (ws defaults incoming : dict) : dict := pupdate (pupdate ws defaults) incoming.
(* after the fix (known_findings F05): re-initialised from the defaults at every update *)
Definition upd_fixed (ws defaults incoming : dict) : dict := pupdate defaults incoming.

Definition run_updates (upd : dict -> dict -> dict -> dict) (defaults : dict) (ws : dict)
           (history : list dict) : dict :=
  fold_left (fun w inc => upd w defaults inc) history ws.

(* navigation to a sub-solver by child indices *)
Fixpoint subtree (t : ptree) (path : list nat) : option ptree :=
  match path with
  | [] => Some t
  | i :: r => match t with
              | PSol children _ _ _ _ => match nth_error children i with
                                       | Some (_, c) => subtree c r | None => None end
              | _ => None
              end
  end.
