(* templates/StructSrcProof.v — fixed proof script appended to the definitions that
   harness/translate_struct.py generates from /repo's CURRENT source of Structure.add_conn,
   Structure.cut_connections and (the registration half of) Solver.add_structure. *)
Lemma dset_absent {Key V : Type} (keqb : Key -> Key -> bool) (k : Key) (v : V) (d : list (Key * V)) :
  dget keqb k d = None -> dset keqb k v d = d ++ [(k, v)].
Proof.
  induction d as [|[a b] r IH]; simpl; intros H; [reflexivity|].
  destruct (keqb a k); [discriminate|]. f_equal. apply IH. exact H.
Qed.

Theorem add_conn_src_is_add_conn (t : sstruct) (x y : spin) : add_conn_src t x y = add_conn t x y.
Proof.
  unfold add_conn_src, add_conn. cbv zeta.
  destruct (dget spin_eqb x (s_conn t)) as [z|] eqn:E.
  - destruct (spin_eqb z y); cbn [negb]; [|reflexivity]. destruct (nmem (fst y) (s_to t)); reflexivity.
  - rewrite (dset_absent spin_eqb x y (s_conn t) E). destruct (nmem (fst y) (s_to t)); reflexivity.
Qed.

Lemma dget_skip (k : spin) (v : spin) : forall (pre r : list (spin * spin)),
  ~ In k (map fst pre) -> dget spin_eqb k (pre ++ (k, v) :: r) = Some v.
Proof.
  induction pre as [|[a b] p IH]; intros r H; simpl; [rewrite spin_eqb_refl; reflexivity|].
  destruct (spin_eqb_spec a k) as [->|_]; [exfalso; apply H; left; reflexivity|].
  apply IH. intros Hin. apply H. right. exact Hin.
Qed.

Lemma dpop_skip' (k : spin) (v : spin) : forall (pre r : list (spin * spin)),
  ~ In k (map fst pre) -> dpop spin_eqb k (pre ++ (k, v) :: r) = pre ++ r.
Proof.
  induction pre as [|[a b] p IH]; intros r H; simpl; [rewrite spin_eqb_refl; reflexivity|].
  destruct (spin_eqb_spec a k) as [->|_]; [exfalso; apply H; left; reflexivity|].
  f_equal. apply IH. intros Hin. apply H. right. exact Hin.
Qed.

Lemma cut_loop (target : nat) (stp : list (spin * spin) * bool -> spin * spin -> list (spin * spin) * bool) :
  (forall cd err it, stp (cd, err) it =
      if Nat.eqb (fst (snd it)) target
      then match dget spin_eqb (fst it) cd with Some _ => (dpop spin_eqb (fst it) cd, err) | None => (cd, true) end
      else (cd, err)) ->
  forall l pre, NoDup (map fst (pre ++ l)) ->
    fold_left stp l (pre ++ l, false)
    = (pre ++ filter (fun e => negb (Nat.eqb (fst (snd e)) target)) l, false).
Proof.
  intros H. induction l as [|[k v] r IH]; intros pre Hn; simpl; [reflexivity|].
  assert (Hk : ~ In k (map fst pre)).
  { rewrite map_app in Hn. simpl in Hn. apply NoDup_remove_2 in Hn. intros Hin. apply Hn. apply in_or_app. left. exact Hin. }
  rewrite H. cbn [fst snd].
  destruct (Nat.eqb (fst v) target) eqn:E; cbn [negb].
  - rewrite dget_skip by exact Hk. rewrite dpop_skip' by exact Hk. apply IH.
    rewrite map_app in *. simpl in Hn. apply NoDup_remove_1 in Hn. exact Hn.
  - replace (pre ++ (k, v) :: r) with ((pre ++ [(k, v)]) ++ r) by (rewrite <- app_assoc; reflexivity).
    rewrite IH by (rewrite <- app_assoc; exact Hn). rewrite <- app_assoc. reflexivity.
Qed.

Theorem cut_connections_src_is_model (t : sstruct) (target : nat) :
  NoDup (map fst (s_conn t)) -> cut_connections_src t target = cut_connections t target.
Proof.
  intros Hn. unfold cut_connections_src, cut_connections.
  destruct (negb (nmem target (s_to t))); [reflexivity|].
  erewrite (cut_loop target _ _ (s_conn t) []); [reflexivity | exact Hn].
  Unshelve. intros cd err it. reflexivity.
Qed.

Lemma append_each (l : list spin) : forall fr, fold_left (fun fr p => fr ++ [p]) l fr = fr ++ l.
Proof. induction l as [|x r IH]; intros fr; simpl; [rewrite app_nil_r; reflexivity|]. rewrite IH, <- app_assoc. reflexivity. Qed.

(* Solver.add_structure registers exactly what the Add clause of Wiring.step registers (the model's structure store,
   which stands for the Python objects themselves, aside) *)
Theorem add_structure_src_is_step_add (s : wstate) (id n : nat) :
  let t := match dget Nat.eqb id (w_store s) with Some t => t | None => fresh_struct id n end in
  let r := add_structure_src s id t in
  let m := step s (Add id n) in
  snd r = snd m /\ w_structs (fst r) = w_structs (fst m) /\ w_conns (fst r) = w_conns (fst m) /\
  w_clist (fst r) = w_clist (fst m) /\ w_free (fst r) = w_free (fst m) /\ w_map (fst r) = w_map (fst m).
Proof.
  cbv zeta. unfold add_structure_src, step.
  destruct (nmem id (w_structs s)); cbn [negb fst snd w_structs w_conns w_clist w_free w_map];
    rewrite ?append_each; repeat split.
Qed.

(* Solver.maps_all_pins (lk.raise_pins): the RaiseAll clause of Wiring.step *)
Fixpoint raise_go (l : list spin) (m : list (nat * spin)) : list (nat * spin) * option err :=
  match l with
  | [] => (m, None)
  | x :: r =>
      if existsb (fun e => spin_eqb (snd e) x) m then raise_go r m else
      match dget Nat.eqb (auto_name x) m with
      | Some _ => (m, Some ENameClash)
      | None => raise_go r (m ++ [(auto_name x, x)])
      end
  end.

Lemma raise_loop (stp : list (nat * spin) * option err -> spin -> list (nat * spin) * option err) :
  (forall m e x, stp (m, e) x =
      match e with
      | Some _ => (m, e)
      | None => if existsb (fun en : nat * spin => spin_eqb (snd en) x) m then (m, None)
                else match dget Nat.eqb (auto_name x) m with
                     | Some _ => (m, Some ENameClash)
                     | None => (dset Nat.eqb (auto_name x) x m, None) end
      end) ->
  forall l m, fold_left stp l (m, None) = raise_go l m.
Proof.
  intros H.
  assert (Stop : forall l m e, fold_left stp l (m, Some e) = (m, Some e)).
  { induction l as [|x r IH]; intros m e; simpl; [reflexivity|]. rewrite H. apply IH. }
  induction l as [|x r IH]; intros m; simpl; [reflexivity|]. rewrite H.
  destruct (existsb (fun en : nat * spin => spin_eqb (snd en) x) m); [apply IH|].
  destruct (dget Nat.eqb (auto_name x) m) eqn:E; [apply Stop|].
  rewrite (dset_absent Nat.eqb (auto_name x) x m E). apply IH.
Qed.

Theorem maps_all_pins_src_is_step_raise (s : wstate) : maps_all_pins_src s = step s RaiseAll.
Proof.
  unfold maps_all_pins_src, step.
  erewrite (raise_loop _ _ (w_free s) (w_map s)).
  - reflexivity.
  Unshelve. intros m e x. reflexivity.
Qed.

Print Assumptions maps_all_pins_src_is_step_raise.
Print Assumptions add_conn_src_is_add_conn.
Print Assumptions cut_connections_src_is_model.
Print Assumptions add_structure_src_is_step_add.

(* Structure.remove_connections / remove_pin *)
Lemma filter_notin_s x l : ~ In x l -> filter (fun p => negb (spin_eqb p x)) l = l.
Proof.
  induction l as [|z r IH]; simpl; intros H; [reflexivity|].
  destruct (spin_eqb_spec z x) as [->|_]; [exfalso; apply H; left; reflexivity|]. simpl. f_equal.
  apply IH. intros Hin. apply H. right. exact Hin.
Qed.

Lemma remove1_filter_s x l : NoDup l -> remove1 x l = filter (fun p => negb (spin_eqb p x)) l.
Proof.
  induction l as [|y r IH]; simpl; intros H; [reflexivity|].
  inversion H as [|? ? Hy Hr]; subst.
  destruct (spin_eqb_spec y x) as [->|Hne]; simpl.
  - symmetry. apply filter_notin_s. exact Hy.
  - f_equal. apply IH. exact Hr.
Qed.

Lemma filter_NoDup_s (g : spin -> bool) l : NoDup l -> NoDup (filter g l).
Proof.
  induction l as [|y r IH]; simpl; intros H; [constructor|].
  inversion H as [|? ? Hy Hr]; subst. destruct (g y); [|apply IH; exact Hr].
  constructor; [|apply IH; exact Hr]. intros Hin. apply Hy. apply filter_In in Hin. tauto.
Qed.

Lemma filter_filter_mem k (G : list spin) pins :
  filter (fun p => negb (mem p G)) (filter (fun p => negb (spin_eqb p k)) pins)
  = filter (fun p => negb (mem p (k :: G))) pins.
Proof.
  induction pins as [|y l IHl]; simpl; [reflexivity|].
  destruct (spin_eqb_spec y k) as [->|Hne]; simpl.
  - rewrite spin_eqb_refl. simpl. exact IHl.
  - destruct (spin_eqb_spec k y) as [Ek|_]; [congruence|]. simpl.
    destruct (mem y G); simpl; [exact IHl | f_equal; exact IHl].
Qed.

Definition own_keys (me : nat) (t : sstruct) : Prop :=
  NoDup (map fst (s_conn t)) /\ NoDup (s_pins t) /\
  forall e, In e (s_conn t) -> fst (fst e) = me /\ In (fst e) (s_pins t).

Lemma remove_loop (me target : nat)
    (stp : list spin * list (spin * spin) * bool -> spin * spin -> list spin * list (spin * spin) * bool) :
  (forall st it, stp st it = if Nat.eqb (fst (snd it)) target then remove_pin_src me st (snd (fst it)) else st) ->
  forall l pre pins, NoDup (map fst (pre ++ l)) -> NoDup pins ->
    (forall e, In e l -> fst (fst e) = me /\ In (fst e) pins) ->
    fold_left stp l (pins, pre ++ l, false)
    = (filter (fun p => negb (mem p (map fst (filter (fun e => Nat.eqb (fst (snd e)) target) l)))) pins,
       pre ++ filter (fun e => negb (Nat.eqb (fst (snd e)) target)) l, false).
Proof.
  intros H. induction l as [|[k v] r IH]; intros pre pins Hn Hp Hk; simpl.
  - f_equal. f_equal. clear. induction pins as [|y l IHl]; simpl; [reflexivity | f_equal; exact IHl].
  - assert (Hkp : ~ In k (map fst pre)).
    { rewrite map_app in Hn. simpl in Hn. apply NoDup_remove_2 in Hn. intros Hin. apply Hn. apply in_or_app. left. exact Hin. }
    destruct (Hk (k, v) (or_introl eq_refl)) as [Hme Hin]. cbn [fst] in Hme, Hin.
    rewrite H. cbn [fst snd].
    destruct (Nat.eqb (fst v) target) eqn:E; cbn [negb].
    + unfold remove_pin_src. replace (me, snd k) with k by (destruct k as [a b]; simpl in *; congruence).
      rewrite dget_skip by exact Hkp. rewrite dpop_skip' by exact Hkp.
      assert (M : mem k pins = true) by (apply mem_In; exact Hin). rewrite M.
      rewrite IH.
      * f_equal. f_equal. rewrite remove1_filter_s by exact Hp. cbn [map fst]. apply filter_filter_mem.
      * rewrite map_app in *. simpl in Hn. apply NoDup_remove_1 in Hn. exact Hn.
      * rewrite remove1_filter_s by exact Hp. apply filter_NoDup_s. exact Hp.
      * intros e He. destruct (Hk e (or_intror He)) as [A B]. split; [exact A|].
        rewrite remove1_filter_s by exact Hp. apply filter_In. split; [exact B|].
        destruct (spin_eqb_spec (fst e) k) as [Ee|_]; [|reflexivity]. exfalso.
        rewrite map_app in Hn. simpl in Hn. apply NoDup_remove_2 in Hn. apply Hn. apply in_or_app. right.
        rewrite <- Ee. apply in_map. exact He.
    + replace (pre ++ (k, v) :: r) with ((pre ++ [(k, v)]) ++ r) by (rewrite <- app_assoc; reflexivity).
      rewrite IH.
      * rewrite <- app_assoc. reflexivity.
      * rewrite <- app_assoc. exact Hn.
      * exact Hp.
      * intros e He. apply Hk. right. exact He.
Qed.

Theorem remove_connections_src_is_model (me : nat) (t : sstruct) (target : nat) :
  own_keys me t -> remove_connections_src me t target = remove_connections t target.
Proof.
  intros (Hn & Hp & Hk). unfold remove_connections_src, remove_connections.
  destruct (negb (nmem target (s_to t))); [reflexivity|].
  erewrite (remove_loop me target _ _ (s_conn t) [] (s_pins t)); [reflexivity | exact Hn | exact Hp | exact Hk].
  Unshelve. intros st it. reflexivity.
Qed.
Print Assumptions remove_connections_src_is_model.
