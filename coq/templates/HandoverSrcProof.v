(* templates/HandoverSrcProof.v — fixed proof script appended to the definitions that harness/translate_handover.py
   generates from /repo's CURRENT source of Structure.get_model, Model.__init__ and Structure.createS. *)
Lemma dget_combine_pos (pins : list spin) (p : spin) : In p pins ->
  dget spin_eqb p (combine pins (seq 0 (List.length pins))) = Some (pos p pins).
Proof.
  assert (G : forall l k, In p l -> dget spin_eqb p (combine l (seq k (List.length l))) = Some (k + pos p l)%nat).
  { induction l as [|y r IH]; intros k H; [destruct H|]. simpl.
    destruct (spin_eqb_spec y p) as [->|Hne]; [f_equal; lia|].
    destruct H as [H|H]; [congruence|]. rewrite IH by exact H. f_equal. lia. }
  intros H. rewrite G by exact H. reflexivity.
Qed.

Lemma nth_map_lt {A B} (f : A -> B) (l : list A) (d' : A) (d : B) k :
  (k < List.length l)%nat -> nth k (map f l) d = f (nth k l d').
Proof.
  revert k. induction l as [|x r IH]; intros k H; simpl in *; [lia|].
  destruct k as [|k]; [reflexivity|]. apply IH. lia.
Qed.

(* what the solved model reads between two exposed names is the entry Hier.restrict defines *)
Theorem get_model_src_is_restrict (T : lst K) (pin_mapping : list (nat * spin)) R :
  restrict T (map snd pin_mapping) = Ok R ->
  let table := get_model_src (combine (l_pins T) (seq 0 (List.length (l_pins T)))) pin_mapping in
  map fst table = map fst pin_mapping /\
  forall i j, (i < List.length pin_mapping)%nat -> (j < List.length pin_mapping)%nat ->
    exists a b, snd (nth i table (0%nat, None)) = Some a /\ snd (nth j table (0%nat, None)) = Some b /\
                l_S R i j = l_S T a b.
Proof.
  unfold restrict. destruct (nodupb (map snd pin_mapping) && forallb (fun p => mem p (l_pins T)) (map snd pin_mapping)) eqn:E;
    [|discriminate].
  intros HR. injection HR as <-. apply andb_true_iff in E. destruct E as [_ Hall].
  rewrite forallb_forall in Hall. cbv zeta. split.
  - unfold get_model_src. rewrite map_map. reflexivity.
  - intros i j Hi Hj. cbn [l_S]. rewrite map_length.
    assert (Hent : forall k, (k < List.length pin_mapping)%nat ->
              snd (nth k (get_model_src (combine (l_pins T) (seq 0 (List.length (l_pins T)))) pin_mapping) (0%nat, None))
              = Some (pos (nth k (map snd pin_mapping) dpin) (l_pins T))).
    { intros k Hk. unfold get_model_src.
      rewrite (nth_map_lt _ _ (0%nat, dpin)) by exact Hk. cbn [snd].
      rewrite (nth_map_lt snd _ (0%nat, dpin) dpin) by exact Hk.
      rewrite dget_combine_pos; [reflexivity|].
      apply mem_In. apply Hall. apply in_map. apply nth_In. exact Hk. }
    exists (pos (nth i (map snd pin_mapping) dpin) (l_pins T)), (pos (nth j (map snd pin_mapping) dpin) (l_pins T)).
    split; [apply Hent; exact Hi|]. split; [apply Hent; exact Hj|].
    rewrite (tab_ok K) by assumption. reflexivity.
Qed.

Theorem model_N_src_is_matrix_size npins n : model_N_src npins (Some n) = n.
Proof. unfold model_N_src. destruct (Nat.eqb_spec npins n); simpl; congruence. Qed.

Lemma dset_absent_s (k : spin) (v : nat) (d : list (spin * nat)) :
  ~ In k (map fst d) -> dset spin_eqb k v d = d ++ [(k, v)].
Proof.
  induction d as [|[a b] r IH]; simpl; intros H; [reflexivity|].
  destruct (spin_eqb_spec a k) as [->|_]; [exfalso; apply H; left; reflexivity|].
  f_equal. apply IH. intros Hin. apply H. right. exact Hin.
Qed.

(* a placement whose table is still empty gets exactly the solved model's table, pin by pin *)
Theorem createS_pins_src_fresh me (mp : list (nat * nat)) : NoDup (map fst mp) ->
  createS_pins_src me [] mp = map (fun pi => ((me, fst pi), snd pi)) mp.
Proof.
  intros H. unfold createS_pins_src.
  assert (G : forall l pre, NoDup (map fst pre ++ map (fun pi : nat * nat => (me, fst pi)) l) ->
              fold_left (fun d pi => dset spin_eqb (me, fst pi) (snd pi) d) l pre
              = pre ++ map (fun pi => ((me, fst pi), snd pi)) l).
  { induction l as [|[a b] r IH]; intros pre Hn; simpl; [rewrite app_nil_r; reflexivity|].
    rewrite dset_absent_s.
    - rewrite IH; [rewrite <- app_assoc; reflexivity|]. rewrite map_app, <- app_assoc. exact Hn.
    - simpl in Hn. apply NoDup_remove_2 in Hn. intros Hin. apply Hn. apply in_or_app. left. exact Hin. }
  apply (G mp []). simpl. clear G.
  induction mp as [|[a b] r IH]; simpl; [constructor|]. inversion H as [|? ? Ha Hr]; subst.
  constructor; [|apply IH; exact Hr]. intros Hin. apply Ha. apply in_map_iff in Hin.
  destruct Hin as ([a' b'] & E & Hin). injection E as <-. apply in_map_iff. exists (a', b'). auto.
Qed.
End HandoverSrc.
Print Assumptions get_model_src_is_restrict.
Print Assumptions model_N_src_is_matrix_size.
Print Assumptions createS_pins_src_fresh.
