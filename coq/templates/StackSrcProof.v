(* templates/StackSrcProof.v — fixed proof script appended to the table that harness/translate_stack.py
   generates from EVERY use of lekkersim.sol_list in /repo's current source.  It shows that the source's
   stack operations are exactly the clauses of Stack.exec: a with-block is push; body; pop, and every helper /
   placement routine leaves the stack alone and acts on its top — for every stack, every solver, every helper. *)
Close Scope string_scope.
Definition run_op (h cur sol : nat) (o : sop) (s : st) : st :=
  match o with
  | Push => {| stack := stack s ++ [sol]; log := log s |}
  | Pop => {| stack := removelast (stack s); log := log s |}
  | ActTop => {| stack := stack s; log := log s ++ [(h, top (stack s), cur)] |}
  end.
Definition run_ops (h cur sol : nat) (ops : list sop) (s : st) : st :=
  fold_left (fun s o => run_op h cur sol o s) ops s.

Definition lookup (name : string) : option (list sop) :=
  match find (fun u => String.eqb (fst u) name) stack_users with Some u => Some (snd u) | None => None end.

Definition is_act (o : sop) : bool := match o with ActTop => true | _ => false end.
Definition is_block (name : string) : bool :=
  String.eqb name "sol.Solver.__enter__"%string || String.eqb name "sol.Solver.__exit__"%string.

(* __enter__ pushes, __exit__ pops, nothing else does either *)
Theorem enter_exit_src :
  lookup "sol.Solver.__enter__"%string = Some [Push] /\ lookup "sol.Solver.__exit__"%string = Some [Pop] /\
  forall name ops, In (name, ops) stack_users -> is_block name = false -> forallb is_act ops = true.
Proof.
  split; [vm_compute; reflexivity|]. split; [vm_compute; reflexivity|].
  assert (G : forallb (fun u => is_block (fst u) || forallb is_act (snd u)) stack_users = true)
    by (vm_compute; reflexivity).
  intros name ops Hin Hb. rewrite forallb_forall in G. specialize (G _ Hin). simpl in G.
  rewrite Hb in G. exact G.
Qed.

(* a with-block of the source is the PWith clause of Stack.exec *)
Theorem with_src_is_PWith (sol cur : nat) (p : prog) (s : st) :
  exec (PWith sol p) cur s
  = let s1 := run_ops 0 cur sol [Push] s in
    let (o, s2) := exec p sol s1 in (o, run_ops 0 cur sol [Pop] s2).
Proof. reflexivity. Qed.

(* routines that only act on the top: the stack is untouched and every solver they act on is its top *)
Lemma acts_only (h cur sol : nat) (ops : list sop) : forallb is_act ops = true ->
  forall s, stack (run_ops h cur sol ops s) = stack s /\
            exists l', log (run_ops h cur sol ops s) = log s ++ l' /\
                       forall e, In e l' -> e = (h, top (stack s), cur).
Proof.
  induction ops as [|o r IH]; intros Hall s; simpl.
  - split; [reflexivity|]. exists []. rewrite app_nil_r. split; [reflexivity | intros e []].
  - simpl in Hall. apply andb_true_iff in Hall. destruct Hall as [Ho Hr].
    destruct o; try discriminate. unfold run_ops in *. simpl.
    destruct (IH Hr {| stack := stack s; log := log s ++ [(h, top (stack s), cur)] |}) as [Hs (l' & Hl & He)].
    simpl in *. split; [exact Hs|]. exists ((h, top (stack s), cur) :: l').
    split; [rewrite Hl, <- app_assoc; reflexivity|].
    intros e [<-|Hin]; [reflexivity | apply He; exact Hin].
Qed.

Theorem users_act_on_top name ops (h cur sol : nat) (s : st) :
  In (name, ops) stack_users -> is_block name = false ->
  stack (run_ops h cur sol ops s) = stack s /\
  exists l', log (run_ops h cur sol ops s) = log s ++ l' /\ forall e, In e l' -> e = (h, top (stack s), cur).
Proof.
  intros Hin Hb. apply acts_only. destruct enter_exit_src as (_ & _ & G). exact (G name ops Hin Hb).
Qed.

(* a module-level helper is the PHelper clause of Stack.exec *)
Theorem helper_src_is_PHelper name (h cur sol : nat) (s : st) :
  In name helper_names -> lookup name = Some [ActTop] /\
  run_ops h cur sol [ActTop] s = snd (exec (PHelper h) cur s).
Proof.
  intros Hin. split; [|reflexivity].
  assert (G : forallb (fun n => match lookup n with Some [ActTop] => true | _ => false end) helper_names = true)
    by (vm_compute; reflexivity).
  rewrite forallb_forall in G. specialize (G _ Hin).
  destruct (lookup name) as [[|[] [|? ?]]|]; try discriminate. reflexivity.
Qed.

Print Assumptions enter_exit_src.
Print Assumptions with_src_is_PWith.
Print Assumptions users_act_on_top.
Print Assumptions helper_src_is_PHelper.
