(* templates/BlocksSrcProof.v — fixed proof script appended to the definitions that harness/translate_blocks.py
   generates from /repo's CURRENT source of the closed-form library blocks.  Each theorem: the translated source equals
   the hand-written Blocks.<Block> (the object of the physics theorems of C09) for ALL real parameter values, all i j. *)

Lemma cexp_imag (z : C) : fst z = 0 -> cexp z = cis (snd z).
Proof.
  intros H. unfold cexp, cscale, cis. rewrite H, exp_0. cbv beta iota delta [fst snd]. f_equal; ring.
Qed.

Lemma pair_eq (a b c d : R) : a = c -> b = d -> (a, b) = (c, d).
Proof. intros -> ->. reflexivity. Qed.

Lemma sqrt2_neq0 : sqrt 2 <> 0.
Proof. apply Rgt_not_eq. apply sqrt_lt_R0. lra. Qed.

(* complex arithmetic down to real components *)
Ltac cunfold :=
  cbv beta iota delta [cofR cneg cdivr cexp cmulc caddc cscale cis C0 fst snd
                       wg_t bs_t bs_c bs_tt att_amp].

(* make the arguments of the transcendental functions on the left syntactically those on the right *)
Ltac unify_args f :=
  repeat match goal with
         | |- ?L = ?R =>
             match L with context [f ?a] =>
               match R with context [f ?b] =>
                 tryif constr_eq a b then fail else
                   (replace a with b by (unfold Rdiv; ring))
               end
             end
         end.

Ltac exp_zero :=
  repeat match goal with
         | |- context [exp ?a] =>
             tryif constr_eq a 0 then fail else (replace a with 0 by (unfold Rdiv; ring))
         end; rewrite ?exp_0.

Ltac real_eq :=
  unify_args cos; unify_args sin; unify_args exp; unify_args sqrt; unify_args (Rpower 10);
  try exp_zero;
  first [ reflexivity | ring | (unfold Rdiv; ring) | (field; apply sqrt2_neq0) | lra ].

Ltac centry := cunfold; apply pair_eq; real_eq.

Theorem Waveguide_src_ok L nr ni wl i j : Waveguide_src L nr ni wl i j = Waveguide L nr ni wl i j.
Proof.
  unfold Waveguide_src, Waveguide, twoport.
  destruct i as [|[|i]], j as [|[|j]]; try reflexivity; centry.
Qed.

Theorem UserWaveguide2_src_ok L n0 n1 wl i j : UserWaveguide2_src L n0 n1 wl i j = UserWaveguide2 L n0 n1 wl i j.
Proof.
  unfold UserWaveguide2_src, UserWaveguide2.
  destruct i as [|[|[|[|i]]]], j as [|[|[|[|j]]]]; try reflexivity; centry.
Qed.

Theorem PhaseShifter_src_ok PS i j : PhaseShifter_src PS i j = PhaseShifter PS i j.
Proof.
  unfold PhaseShifter_src, PhaseShifter, twoport.
  destruct i as [|[|i]], j as [|[|j]]; try reflexivity; centry.
Qed.

Theorem PushPull_src_ok PS i j : PushPull_src PS i j = PushPull PS i j.
Proof.
  unfold PushPull_src, PushPull.
  destruct i as [|[|[|[|i]]]], j as [|[|[|[|j]]]]; try reflexivity; centry.
Qed.

Theorem TH_PhaseShifter_src_ok L n wl PS i j : TH_PhaseShifter_src L n wl PS i j = TH_PhaseShifter L n wl PS i j.
Proof.
  unfold TH_PhaseShifter_src, TH_PhaseShifter, twoport.
  destruct i as [|[|i]], j as [|[|j]]; try reflexivity; centry.
Qed.

Theorem Attenuator_src_ok loss i j : Attenuator_src loss i j = Attenuator loss i j.
Proof.
  unfold Attenuator_src, Attenuator, twoport.
  destruct i as [|[|i]], j as [|[|j]]; try reflexivity; cunfold; apply pair_eq; try reflexivity;
    f_equal; lra.
Qed.

Theorem LinearAttenuator_src_ok c i j : LinearAttenuator_src c i j = LinearAttenuator c i j.
Proof.
  unfold LinearAttenuator_src, LinearAttenuator, twoport.
  destruct i as [|[|i]], j as [|[|j]]; try reflexivity; centry.
Qed.

Theorem Mirror_src_ok ref phase i j : Mirror_src ref phase i j = Mirror ref phase i j.
Proof.
  unfold Mirror_src, Mirror.
  destruct i as [|[|i]], j as [|[|j]]; try reflexivity; centry.
Qed.

Theorem PerfectMirror_src_ok phase i j : PerfectMirror_src phase i j = PerfectMirror phase i j.
Proof.
  unfold PerfectMirror_src, PerfectMirror.
  destruct i as [|i], j as [|j]; try reflexivity; centry.
Qed.

Theorem BeamSplitter_src_ok ratio phase i j : BeamSplitter_src ratio phase i j = BeamSplitter ratio phase i j.
Proof.
  unfold BeamSplitter_src, BeamSplitter.
  destruct i as [|[|[|[|i]]]], j as [|[|[|[|j]]]]; try reflexivity; centry.
Qed.

Theorem BeamSplitterT_src_ok ratio t phase i j : BeamSplitterT_src ratio t phase i j = BeamSplitterT ratio t phase i j.
Proof.
  unfold BeamSplitterT_src, BeamSplitterT.
  destruct i as [|[|[|[|i]]]], j as [|[|[|[|j]]]]; try reflexivity; centry.
Qed.

Theorem Splitter1x2_src_ok i j : Splitter1x2_src i j = Splitter1x2 i j.
Proof.
  unfold Splitter1x2_src, Splitter1x2.
  destruct i as [|[|[|i]]], j as [|[|[|j]]]; try reflexivity; centry.
Qed.

Theorem PolRot_fixed_src_ok angle i j : PolRot_fixed_src angle i j = PolRot angle i j.
Proof.
  unfold PolRot_fixed_src, PolRot. cbv zeta.
  destruct i as [|[|[|[|i]]]], j as [|[|[|[|j]]]]; try reflexivity; centry.
Qed.

Theorem PolRot_var_src_ok angle i j : PolRot_var_src angle i j = PolRot angle i j.
Proof.
  unfold PolRot_var_src, PolRot. cbv zeta.
  destruct i as [|[|[|[|i]]]], j as [|[|[|[|j]]]]; try reflexivity; centry.
Qed.

Print Assumptions Waveguide_src_ok.
Print Assumptions UserWaveguide2_src_ok.
Print Assumptions PhaseShifter_src_ok.
Print Assumptions PushPull_src_ok.
Print Assumptions TH_PhaseShifter_src_ok.
Print Assumptions Attenuator_src_ok.
Print Assumptions LinearAttenuator_src_ok.
Print Assumptions Mirror_src_ok.
Print Assumptions PerfectMirror_src_ok.
Print Assumptions BeamSplitter_src_ok.
Print Assumptions BeamSplitterT_src_ok.
Print Assumptions Splitter1x2_src_ok.
Print Assumptions PolRot_fixed_src_ok.
Print Assumptions PolRot_var_src_ok.
