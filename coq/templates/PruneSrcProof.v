(* templates/PruneSrcProof.v — fixed proof script appended to the definitions that harness/translate_prune.py generates
   from /repo's CURRENT source of Solver.prune and Model.is_empty. *)
Lemma is_empty_src_dead L : is_empty_src L = dead (Leaf L).
Proof. unfold is_empty_src. simpl. destruct (l_pins L); reflexivity. Qed.

Theorem prune_src_is_prune (c : circ K) : prune_src c = (prune c, dead c).
Proof.
  induction c as [L|subs cs ex IH] using (circ_ind2 K).
  - simpl. rewrite is_empty_src_dead. reflexivity.
  - rewrite prune_Sub. cbn [prune_src dead].
    set (go := fix go (l : list (circ K)) : list (circ K) * list (circ K) :=
                  match l with
                  | [] => ([], [])
                  | st :: rest =>
                      let kn := go rest in
                      match st with
                      | Leaf L => if is_empty_src L then kn else (st :: fst kn, st :: snd kn)
                      | Sub _ _ _ => let pe := prune_src st in
                                     if snd pe then kn else (fst pe :: fst kn, fst pe :: snd kn)
                      end
                  end).
    assert (G : forall l, (forall c, In c l -> prune_src c = (prune c, dead c)) ->
                go l = (prune_list l, prune_list l) /\
                Nat.eqb (List.length (prune_list l)) 0 = forallb dead l).
    { induction l as [|st rest IHl]; intros H; [split; reflexivity|].
      destruct (IHl (fun c Hc => H c (or_intror Hc))) as [E1 E2].
      assert (Hst := H st (or_introl eq_refl)).
      cbn [prune_list forallb]. 
      destruct st as [L|s1 c1 e1].
      - change (go (Leaf L :: rest)) with
          (if is_empty_src L then go rest else (Leaf L :: fst (go rest), Leaf L :: snd (go rest))).
        rewrite is_empty_src_dead, E1. cbn [fst snd].
        destruct (dead (Leaf L)) eqn:D; cbn [andb]; [split; [reflexivity | exact E2]|].
        split; reflexivity.
      - change (go (Sub s1 c1 e1 :: rest)) with
          (if snd (prune_src (Sub s1 c1 e1)) then go rest
           else (fst (prune_src (Sub s1 c1 e1)) :: fst (go rest), fst (prune_src (Sub s1 c1 e1)) :: snd (go rest))).
        rewrite Hst, E1. cbn [fst snd].
        destruct (dead (Sub s1 c1 e1)) eqn:D; cbn [andb]; [split; [reflexivity | exact E2]|].
        split; reflexivity. }
    destruct (G subs IH) as [E1 E2]. rewrite E1. cbn [fst snd]. rewrite E2. reflexivity.
Qed.
Theorem model_prune_src_is_dead L : model_prune_src L = dead (Leaf L).
Proof. unfold model_prune_src. simpl. destruct (l_pins L); reflexivity. Qed.
End PruneSrc.
Print Assumptions prune_src_is_prune.
Print Assumptions model_prune_src_is_dead.
