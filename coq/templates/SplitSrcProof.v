(* templates/SplitSrcProof.v — fixed proof script appended to the definitions that harness/translate_split.py generates
   from /repo's CURRENT source of Solver.split. *)
Definition same_set (A B : list nat) : Prop := forall x, In x A <-> In x B.

Lemma seteq_spec A B : seteq A B = true <-> same_set A B.
Proof.
  unfold seteq, same_set. rewrite andb_true_iff, !forallb_forall. split.
  - intros [H1 H2] x. split; intros H; apply nin_In; [apply H1 | apply H2]; exact H.
  - intros H. split; intros x Hx; apply nin_In; apply H; exact Hx.
Qed.
Lemma seteq_refl A : seteq A A = true.
Proof. apply seteq_spec. intros x. tauto. Qed.

Lemma touches_same adjs A B : same_set A B -> touches adjs A = touches adjs B.
Proof.
  intros H. destruct (touches adjs A) eqn:EA, (touches adjs B) eqn:EB; try reflexivity.
  - apply touches_spec in EA. destruct EA as (t & H1 & H2).
    assert (touches adjs B = true) by (apply touches_spec; exists t; split; [exact H1 | apply H; exact H2]). congruence.
  - apply touches_spec in EB. destruct EB as (t & H1 & H2).
    assert (touches adjs A = true) by (apply touches_spec; exists t; split; [exact H1 | apply H; exact H2]). congruence.
Qed.

(* the first loop: every touched set gets st, and is listed *)
Lemma loop1 (adjs : list nat) (st : nat) (stp : list (list nat) * list (list nat) -> list nat -> list (list nat) * list (list nat)) :
  (forall ac S, stp ac S = if existsb (fun target => nin target S) adjs
                           then (fst ac ++ [st :: S], snd ac ++ [st :: S]) else (fst ac ++ [S], snd ac)) ->
  forall l a c, fold_left stp l (a, c) =
    (a ++ map (fun S => if touches adjs S then st :: S else S) l, c ++ map (cons st) (filter (touches adjs) l)).
Proof.
  intros Hs. induction l as [|S r IH]; intros a c; simpl; [rewrite !app_nil_r; reflexivity|].
  rewrite Hs. cbn [fst snd]. fold (touches adjs S). destruct (touches adjs S); rewrite IH; simpl;
    rewrite <- !app_assoc; reflexivity.
Qed.

Lemma remove_skip X : forall cs ss, (forall C, In C cs -> seteq X C = false) ->
  fold_left (fun ss C => remove_set C ss) cs (X :: ss) = X :: fold_left (fun ss C => remove_set C ss) cs ss.
Proof.
  induction cs as [|C r IH]; intros ss H; simpl; [reflexivity|].
  rewrite (H C (or_introl eq_refl)). apply IH. intros C' HC'. apply H. right. exact HC'.
Qed.

(* the second loop removes exactly the touched sets *)
Lemma loop2 (adjs : list nat) (st : nat) : forall l,
  fold_left (fun ss C => remove_set C ss) (map (cons st) (filter (touches adjs) l))
            (map (fun S => if touches adjs S then st :: S else S) l)
  = filter (fun S => negb (touches adjs S)) l.
Proof.
  induction l as [|X r IH]; simpl; [reflexivity|].
  destruct (touches adjs X) eqn:E; simpl.
  - rewrite seteq_refl. exact IH.
  - rewrite remove_skip; [rewrite IH; reflexivity|].
    intros C HC. apply in_map_iff in HC. destruct HC as (S & <- & HS). apply filter_In in HS. destruct HS as [_ HS].
    destruct (seteq X (st :: S)) eqn:Q; [|reflexivity]. exfalso.
    apply seteq_spec in Q. apply touches_spec in HS. destruct HS as (t & H1 & H2).
    assert (touches adjs X = true) by (apply touches_spec; exists t; split; [exact H1 | apply Q; right; exact H2]).
    congruence.
Qed.

Lemma Forall2_filter {A B} (R : A -> B -> Prop) f g l m :
  Forall2 R l m -> Forall2 (fun a b => f a = g b) l m -> Forall2 R (filter f l) (filter g m).
Proof.
  intros H. induction H as [|a b l m Hab _ IH]; intros HF; simpl; [constructor|].
  inversion HF as [|? ? ? ? E HF']; subst. rewrite E. destruct (g b); [constructor; [exact Hab | apply IH; exact HF'] | apply IH; exact HF'].
Qed.

Lemma Forall2_snoc {A B} (R : A -> B -> Prop) l m a b : Forall2 R l m -> R a b -> Forall2 R (l ++ [a]) (m ++ [b]).
Proof. intros H Hab. apply Forall2_app; [exact H | constructor; [exact Hab | constructor]]. Qed.

Lemma concat_same l m : Forall2 same_set l m -> same_set (concat l) (concat m).
Proof.
  intros H. induction H as [|a b l m Hab _ IH]; [intros x; tauto|]. intros x. simpl. rewrite !in_app_iff, (Hab x), (IH x). tauto.
Qed.

Theorem split_step_src_is_split_step adj sets sets' st :
  Forall2 same_set sets sets' -> Forall2 same_set (split_step_src adj sets st) (split_step adj sets' st).
Proof.
  intros H. unfold split_step_src, split_step.
  rewrite (loop1 (adj st) st _ (fun ac S => eq_refl) sets [] []). cbn [app].
  rewrite loop2.
  assert (HT : Forall2 (fun a b => touches (adj st) a = touches (adj st) b) sets sets').
  { clear - H. induction H; constructor; [apply touches_same; assumption | assumption]. }
  assert (HO : Forall2 same_set (filter (fun S => negb (touches (adj st) S)) sets)
                                (filter (fun S => negb (touches (adj st) S)) sets')).
  { apply Forall2_filter; [exact H|]. clear - HT. induction HT as [|a b l m E _ IH]; constructor; [rewrite E; reflexivity | exact IH]. }
  assert (HC : Forall2 same_set (filter (touches (adj st)) sets) (filter (touches (adj st)) sets')).
  { apply Forall2_filter; [exact H | exact HT]. }
  rewrite map_length.
  destruct (filter (touches (adj st)) sets) as [|A0 As] eqn:EA;
    destruct (filter (touches (adj st)) sets') as [|B0 Bs] eqn:EB; try (inversion HC; fail).
  - cbn [List.length Nat.eqb].
    apply Forall2_snoc; [exact HO|]. intros x. rewrite nodupn_In. tauto.
  - cbn [List.length Nat.eqb].
    apply Forall2_snoc; [exact HO|]. intros x. rewrite nodupn_In.
    pose proof (concat_same _ _ HC x) as Hx.
    assert (Hm : forall l, In x (concat (map (cons st) l)) <-> (l <> [] /\ x = st) \/ In x (concat l)).
    { induction l as [|S r IHl]; [simpl; intuition congruence|].
      change (concat (map (cons st) (S :: r))) with ((st :: S) ++ concat (map (cons st) r)).
      change (concat (S :: r)) with (S ++ concat r).
      rewrite !in_app_iff, IHl. cbn [In].
      split.
      - intros [[Hs|Hs]|[[_ Hs]|Hs]].
        + left. split; [discriminate | congruence].
        + right. left. exact Hs.
        + left. split; [discriminate | exact Hs].
        + right. right. exact Hs.
      - intros [[_ Hs]|[Hs|Hs]].
        + left. left. congruence.
        + left. right. exact Hs.
        + right. right. exact Hs. }
    rewrite Hm. cbn [In]. split.
    + intros [[_ ->]|Hs]; [left; reflexivity | right; apply Hx; exact Hs].
    + intros [<-|Hs]; [left; split; [discriminate | reflexivity] | right; apply Hx; exact Hs].
Qed.

Theorem split_sets_src_is_split_sets adj structs :
  Forall2 same_set (split_sets_src adj structs) (split_sets adj structs).
Proof.
  unfold split_sets_src, split_sets.
  assert (G : forall l a b, Forall2 same_set a b ->
              Forall2 same_set (fold_left (split_step_src adj) l a) (fold_left (split_step adj) l b)).
  { induction l as [|st r IH]; intros a b H; simpl; [exact H|]. apply IH. apply split_step_src_is_split_step. exact H. }
  apply G. constructor.
Qed.

(* a part receives exactly the links whose first end, and the exposures whose structure, is one of its members; two lists
   with the same members receive the same links and exposures *)
Theorem split_parts_src_spec sets conns pmap :
  split_parts_src sets conns pmap =
  map (fun S => (S, filter (fun tt : spin * spin => nin (fst (fst tt)) S) conns,
                 filter (fun np : nat * spin => nin (fst (snd np)) S) pmap)) sets /\
  forall S S', same_set S S' ->
    filter (fun tt : spin * spin => nin (fst (fst tt)) S) conns = filter (fun tt => nin (fst (fst tt)) S') conns /\
    filter (fun np : nat * spin => nin (fst (snd np)) S) pmap = filter (fun np => nin (fst (snd np)) S') pmap.
Proof.
  split; [reflexivity|]. intros S S' H.
  assert (E : forall x, nin x S = nin x S').
  { intros x. destruct (nin x S) eqn:A, (nin x S') eqn:B; try reflexivity.
    - apply nin_In in A. apply H in A. apply nin_In in A. congruence.
    - apply nin_In in B. apply H in B. apply nin_In in B. congruence. }
  split; apply filter_ext; intros x; apply E.
Qed.

Print Assumptions split_step_src_is_split_step.
Print Assumptions split_sets_src_is_split_sets.
Print Assumptions split_parts_src_spec.
