(* templates/ModesSrcProof.v — fixed proof script appended to the definitions that harness/translate_modes.py generates
   from /repo's CURRENT source of Model.expand_mode / _expand_S, diag_blocks, Solver.connect_all and the mode queries. *)
Lemma fold_flat_map {A B C} (f : A -> C -> A) (g : B -> list C) l a :
  fold_left (fun acc x => fold_left f (g x) acc) l a = fold_left f (flat_map g l) a.
Proof.
  revert a. induction l as [|x r IH]; intros a; simpl; [reflexivity|]. rewrite fold_left_app. apply IH.
Qed.

Lemma dset_fresh_pin (k : pin) (v : nat) d : ~ In k (map fst d) -> dset pin_eqb k v d = d ++ [(k, v)].
Proof.
  induction d as [|[a b] r IH]; simpl; intros H; [reflexivity|].
  destruct (pin_eqb_spec a k) as [->|_]; [exfalso; apply H; left; reflexivity|].
  f_equal. apply IH. intros Hin. apply H. right. exact Hin.
Qed.

Lemma dset_fold_nodup (stp : list (pin * nat) -> pin * nat -> list (pin * nat)) :
  (forall d kv, stp d kv = dset pin_eqb (fst kv) (snd kv) d) ->
  forall kvs pre, NoDup (map fst (pre ++ kvs)) -> fold_left stp kvs pre = pre ++ kvs.
Proof.
  intros Hs. induction kvs as [|[k v] r IH]; intros pre Hn; simpl; [rewrite app_nil_r; reflexivity|].
  rewrite Hs. cbn [fst snd]. rewrite dset_fresh_pin.
  - rewrite IH; [rewrite <- app_assoc; reflexivity | rewrite <- app_assoc; exact Hn].
  - rewrite map_app in Hn. simpl in Hn. apply NoDup_remove_2 in Hn. intros Hin. apply Hn. apply in_or_app. left. exact Hin.
Qed.

Definition expand_entries (N : nat) (pd : list (pin * nat)) (modes : list string) : list (pin * nat) :=
  flat_map (fun pn => map (fun im => ({| basename := pin_name (fst pn); mode_name := Some (snd im) |},
                                       expand_idx N (fst im) (snd pn)))
                          (combine (seq 0 (List.length modes)) modes)) pd.

Lemma fold_map' {A B C} (f : A -> C -> A) (h : B -> C) l a :
  fold_left (fun acc x => f acc (h x)) l a = fold_left f (map h l) a.
Proof. revert a. induction l as [|x r IH]; intros a; simpl; [reflexivity | apply IH]. Qed.

Theorem expand_pins_src_spec N pd modes :
  NoDup (map fst (expand_entries N pd modes)) ->
  expand_pins_src N pd modes =
    if existsb (fun pn => has_mode (fst pn)) pd then None else Some (expand_entries N pd modes).
Proof.
  intros Hn. unfold expand_pins_src. destruct (existsb _ pd); [reflexivity|]. f_equal.
  set (f := fun (d : list (pin * nat)) (kv : pin * nat) => dset pin_eqb (fst kv) (snd kv) d).
  transitivity (fold_left f (expand_entries N pd modes) []).
  - unfold expand_entries. rewrite <- fold_flat_map. 
    assert (E : forall l d, fold_left (fun new_pin_dic pn =>
          fold_left (fun new_pin_dic im =>
            dset pin_eqb {| basename := pin_name (fst pn); mode_name := Some (snd im) |} (fst im * N + snd pn) new_pin_dic)
            (combine (seq 0 (List.length modes)) modes) new_pin_dic) l d
        = fold_left (fun acc x => fold_left f (map (fun im => ({| basename := pin_name (fst x); mode_name := Some (snd im) |},
                                       expand_idx N (fst im) (snd x))) (combine (seq 0 (List.length modes)) modes)) acc) l d).
    { induction l as [|x r IH]; intros d; simpl; [reflexivity|]. rewrite IH. f_equal.
      rewrite <- fold_map'. reflexivity. }
    apply E.
  - apply (dset_fold_nodup f (fun d kv => eq_refl) _ []). exact Hn.
Qed.

Lemma div_block N r j : 0 < N -> (r / N = j <-> j * N <= r /\ r < j * N + N).
Proof.
  intros HN. split.
  - intros <-. pose proof (Nat.div_mod r N ltac:(lia)) as E. pose proof (Nat.mod_upper_bound r N ltac:(lia)) as B. nia.
  - intros [H1 H2]. symmetry. apply (Nat.div_unique r N j (r - j * N)); [lia | nia].
Qed.
Lemma mod_block N r j : 0 < N -> r / N = j -> r - j * N = r mod N.
Proof.
  intros HN <-. pose proof (Nat.div_mod r N ltac:(lia)) as E. nia.
Qed.

Definition blk_inv (N : nat) (S : mx K) (j : nat) (M : mx K) : Prop :=
  forall r c, M r c = if Nat.eqb (r / N) (c / N) && (r / N <? j) then S (r mod N) (c mod N) else f0 K.

Lemma div_lt_block N r j : 0 < N -> r / N < j -> r < j * N.
Proof.
  intros HN H. destruct (Nat.lt_ge_cases r (j * N)) as [X|X]; [exact X|].
  assert (j <= r / N) by (apply Nat.div_le_lower_bound; lia). lia.
Qed.
Lemma div_gt_block N r j : 0 < N -> j < r / N -> j * N + N <= r.
Proof.
  intros HN H. destruct (Nat.lt_ge_cases r (j * N + N)) as [X|X]; [|exact X].
  assert (r / N < j + 1) by (apply Nat.div_lt_upper_bound; lia). lia.
Qed.

Lemma diag_step_inv N S j M : 0 < N -> blk_inv N S j M ->
  blk_inv N S (j + 1)
    (fun r c => if (j * N <=? r) && (r <? j * N + N) && (j * N <=? c) && (c <? j * N + N)
                then S (r - j * N) (c - j * N) else M r c).
Proof.
  intros HN Inv r c. rewrite Inv.
  destruct (Nat.lt_trichotomy (r / N) j) as [Lr|[Er|Gr]].
  - pose proof (div_lt_block N r j HN Lr) as B.
    destruct (Nat.leb_spec (j * N) r) as [X|_]; [lia|]. cbn [andb].
    destruct (Nat.ltb_spec (r / N) j) as [_|X]; [|lia]. destruct (Nat.ltb_spec (r / N) (j + 1)) as [_|X]; [|lia].
    reflexivity.
  - pose proof (proj1 (div_block N r j HN) Er) as [B1 B2].
    destruct (Nat.leb_spec (j * N) r) as [_|X]; [|lia]. destruct (Nat.ltb_spec r (j * N + N)) as [_|X]; [|lia].
    cbn [andb]. rewrite Er. destruct (Nat.ltb_spec j j) as [X|_]; [lia|]. rewrite andb_false_r.
    destruct (Nat.ltb_spec j (j + 1)) as [_|X]; [|lia]. rewrite andb_true_r.
    destruct (Nat.eq_dec (c / N) j) as [Ec|Ec].
    + pose proof (proj1 (div_block N c j HN) Ec) as [C1 C2].
      destruct (Nat.leb_spec (j * N) c) as [_|X]; [|lia]. destruct (Nat.ltb_spec c (j * N + N)) as [_|X]; [|lia].
      cbn [andb]. rewrite Ec, Nat.eqb_refl. rewrite (mod_block N r j HN Er), (mod_block N c j HN Ec). reflexivity.
    + assert (Hc : (j * N <=? c) && (c <? j * N + N) = false).
      { destruct (Nat.leb_spec (j * N) c) as [C1|C1]; [|reflexivity].
        destruct (Nat.ltb_spec c (j * N + N)) as [C2|C2]; [|reflexivity].
        exfalso. apply Ec. apply div_block; [exact HN | split; assumption]. }
      rewrite Hc.
      destruct (Nat.eqb_spec j (c / N)) as [X|_]; [congruence | reflexivity].
  - pose proof (div_gt_block N r j HN Gr) as B.
    destruct (Nat.ltb_spec r (j * N + N)) as [X|_]; [lia|]. rewrite andb_false_r. cbn [andb].
    destruct (Nat.ltb_spec (r / N) j) as [X|_]; [lia|]. destruct (Nat.ltb_spec (r / N) (j + 1)) as [X|_]; [lia|].
    rewrite !andb_false_r. reflexivity.
Qed.

Lemma diag_repeat_inv N S (stp : mx K * nat -> nat * mx K -> mx K * nat) :
  (forall Mm nA, stp Mm nA =
     ((fun r c => if (snd Mm <=? r) && (r <? snd Mm + fst nA) && (snd Mm <=? c) && (c <? snd Mm + fst nA)
                  then snd nA (r - snd Mm) (c - snd Mm) else fst Mm r c), snd Mm + fst nA)) ->
  0 < N -> forall k j M, blk_inv N S j M ->
  blk_inv N S (j + k) (fst (fold_left stp (repeat (N, S) k) (M, j * N))) /\
  snd (fold_left stp (repeat (N, S) k) (M, j * N)) = (j + k) * N.
Proof.
  intros Hs HN. induction k as [|k IH]; intros j M Inv; simpl.
  - rewrite Nat.add_0_r. split; [exact Inv | reflexivity].
  - rewrite Hs. cbn [fst snd].
    replace (j * N + N) with ((j + 1) * N) by lia.
    replace (j + Datatypes.S k) with ((j + 1) + k) by lia.
    apply IH. replace ((j + 1) * N) with (j * N + N) by lia. apply diag_step_inv; assumption.
Qed.

(* _expand_S: np copies of the single-mode matrix on the diagonal = Modes.expand_S, at every index below np * N *)
Theorem expand_S_src_is_expand_S N np S r c : 0 < N -> 0 < np -> r < np * N -> c < np * N ->
  expand_S_src (np * N) np S r c = expand_S N S r c.
Proof.
  intros HN Hnp Hr Hc. unfold expand_S_src, diag_blocks_src.
  replace (np * N / np) with N by (rewrite (Nat.mul_comm np N), Nat.div_mul; lia).
  destruct (diag_repeat_inv N S _ (fun Mm nA => eq_refl) HN np 0 (fun _ _ => f0 K)) as [Inv _].
  { intros r' c'. destruct (Nat.eqb (r' / N) (c' / N)); reflexivity. }
  cbn [Nat.mul Nat.add] in Inv. rewrite Inv. unfold expand_S.
  assert (Hq : r / N < np) by (apply Nat.div_lt_upper_bound; lia).
  destruct (Nat.eqb (r / N) (c / N)); cbn [andb]; [|reflexivity].
  destruct (Nat.ltb_spec (r / N) np) as [_|X]; [reflexivity | lia].
Qed.

(* connect_all: one link per mode the two base names have in common, like with like (the order in which Python
   iterates over the intersection set is not specified: the statement is about the SET of links) *)
Theorem connect_all_src_is_links b1 b2 (ms1 ms2 : list string) p q :
  In (p, q) (connect_all_src b1 b2 (map Some ms1) (map Some ms2)) <-> In (p, q) (connect_all_links b1 b2 ms1 ms2).
Proof.
  unfold connect_all_src. rewrite connect_all_pairs, in_map_iff. split.
  - intros (m & E & Hm). apply filter_In in Hm. destruct Hm as [H1 H2].
    apply in_map_iff in H1. destruct H1 as (s1 & <- & Hs1).
    apply existsb_exists in H2. destruct H2 as (m' & Hm' & E').
    apply in_map_iff in Hm'. destruct Hm' as (s2 & <- & Hs2).
    unfold omode_eqb in E'.
    destruct (pin_eqb_spec {| basename := EmptyString; mode_name := Some s1 |}
                           {| basename := EmptyString; mode_name := Some s2 |}) as [Eq|]; [|discriminate].
    injection Eq as ->. injection E as <- <-. exists s2. auto.
  - intros (m & H1 & H2 & -> & ->). exists (Some m). split; [reflexivity|]. apply filter_In. split.
    + apply in_map. exact H1.
    + apply existsb_exists. exists (Some m). split; [apply in_map; exact H2|]. unfold omode_eqb.
      destruct (pin_eqb_spec {| basename := EmptyString; mode_name := Some m |}
                             {| basename := EmptyString; mode_name := Some m |}); [reflexivity | congruence].
Qed.

Theorem get_pin_modes_src_is_pin_modes pins b : get_pin_modes_src pins b = pin_modes b pins.
Proof. reflexivity. Qed.

Theorem get_pin_basenames_src_is_basenames pins b : In b (get_pin_basenames_src pins) <-> In b (pin_basenames pins).
Proof. unfold get_pin_basenames_src, pin_basenames. rewrite sdedup_In. tauto. Qed.

End ModesSrc.
Print Assumptions expand_pins_src_spec.
Print Assumptions expand_S_src_is_expand_S.
Print Assumptions connect_all_src_is_links.
Print Assumptions get_pin_modes_src_is_pin_modes.
Print Assumptions get_pin_basenames_src_is_basenames.
