(* templates/ParamsSrcProof.v — fixed proof script appended to the definitions that
   harness/translate_params.py generates from /repo's CURRENT source of Structure.update_params,
   Model.update_params, Solver.update_params, Solver.add_param and Solver.add_structure.
   For ALL dictionaries (association lists with distinct keys, as Python dicts are) the translated
   routines deliver, under every name, what the hand-written model of Params.v delivers — the model
   the C05 theorems (rename_shield_spec, rename_simultaneous, solver_precedence, ...) are about. *)
From Lekkersim Require Import ParamsProofs.

Definition deq (a b : dict) : Prop := forall k, pget k a = pget k b.
Definition keys (d : dict) : list nat := map fst d.

Lemma deq_refl a : deq a a. Proof. intros k. reflexivity. Qed.
Lemma deq_trans a b c : deq a b -> deq b c -> deq a c.
Proof. intros H1 H2 k. rewrite H1. apply H2. Qed.

Lemma pset_deq k v a b : deq a b -> deq (pset k v a) (pset k v b).
Proof.
  intros H k'. destruct (Nat.eq_dec k' k) as [->|Hne].
  - rewrite !pget_pset_same. reflexivity.
  - rewrite !pget_pset_other by exact Hne. apply H.
Qed.

Lemma pget_notin k d : ~ In k (keys d) -> pget k d = None.
Proof.
  induction d as [|[a b] r IH]; simpl; intros H; [reflexivity|].
  destruct (Nat.eqb_spec a k) as [->|_]; [exfalso; apply H; left; reflexivity|].
  apply IH. intros Hin. apply H. right. exact Hin.
Qed.

Lemma ppop_keys_incl k d x : In x (keys (ppop k d)) -> In x (keys d).
Proof.
  induction d as [|[a b] r IH]; simpl; [tauto|].
  destruct (Nat.eqb a k); simpl; [tauto|]. intros [H|H]; [left; exact H | right; apply IH; exact H].
Qed.

Lemma ppop_nodup k d : NoDup (keys d) -> NoDup (keys (ppop k d)).
Proof.
  induction d as [|[a b] r IH]; simpl; intros H; [constructor|].
  inversion H as [|? ? Ha Hr]; subst.
  destruct (Nat.eqb a k); simpl; [exact Hr|].
  constructor; [|apply IH; exact Hr]. intros Hin. apply Ha. eapply ppop_keys_incl. exact Hin.
Qed.

Lemma pget_ppop k k' d : NoDup (keys d) ->
  pget k (ppop k' d) = if Nat.eqb k' k then None else pget k d.
Proof.
  induction d as [|[a b] r IH]; simpl; intros H; [destruct (Nat.eqb k' k); reflexivity|].
  inversion H as [|? ? Ha Hr]; subst.
  destruct (Nat.eqb_spec a k') as [->|Hne].
  - destruct (Nat.eqb_spec k' k) as [->|Hk]; [apply pget_notin; exact Ha | reflexivity].
  - simpl. destruct (Nat.eqb_spec a k) as [->|Hak].
    + destruct (Nat.eqb_spec k' k); [congruence | reflexivity].
    + apply IH. exact Hr.
Qed.

Lemma pset_keys_nodup k v d : NoDup (keys d) -> NoDup (keys (pset k v d)).
Proof.
  induction d as [|[a b] r IH]; simpl; intros H; [constructor; [intros []|constructor]|].
  inversion H as [|? ? Ha Hr]; subst.
  destruct (Nat.eqb_spec a k) as [->|Hne]; simpl; [constructor; assumption|].
  constructor; [|apply IH; exact Hr].
  intros Hin. apply Ha. clear -Hin Hne.
  induction r as [|[c e] r IH]; simpl in *.
  - destruct Hin as [E|[]]. congruence.
  - destruct (Nat.eqb_spec c k) as [->|Hck]; simpl in Hin.
    + destruct Hin as [E|Hin]; [congruence | right; exact Hin].
    + destruct Hin as [E|Hin]; [left; exact E | right; apply IH; exact Hin].
Qed.

Lemma pupdate_nodup d d' : NoDup (keys d) -> NoDup (keys (pupdate d d')).
Proof.
  unfold pupdate. revert d. induction d' as [|[k v] r IH]; intros d H; simpl; [exact H|].
  apply IH. apply pset_keys_nodup. exact H.
Qed.

(* a Python dict rebuilt by update() from another one has the same content *)
Lemma pupdate_nil d : NoDup (keys d) -> deq (pupdate [] d) d.
Proof.
  intros H k. rewrite pget_pupdate, (pget_rev k d H). simpl. destruct (pget k d); reflexivity.
Qed.

Lemma pupdate_deq a b c : deq a b -> deq (pupdate a c) (pupdate b c).
Proof. intros H k. rewrite !pget_pupdate. destruct (pget k (rev c)); [reflexivity | apply H]. Qed.

(* update with a dictionary that was itself accumulated by update(): same as updating with the items *)
Lemma pupdate_via_nil a L : deq (pupdate a (pupdate [] L)) (pupdate a L).
Proof.
  intros k. rewrite (pget_pupdate k a (pupdate [] L)).
  rewrite (pget_rev k (pupdate [] L)) by (apply pupdate_nodup; constructor).
  rewrite !pget_pupdate. simpl. destruct (pget k (rev L)); reflexivity.
Qed.

Lemma fold_pset_map {X : Type} (f : X -> nat) (g : X -> val) (l : list X) (s : dict) :
  fold_left (fun acc it => pset (f it) (g it) acc) l s = pupdate s (map (fun it => (f it, g it)) l).
Proof.
  unfold pupdate. revert s. induction l as [|x r IH]; intros s; simpl; [reflexivity|]. apply IH.
Qed.

Section ParamsSrcProof.
Variable fn : nat -> dict -> val.

(* ---------- Structure.update_params = rename_shield ---------- *)
Lemma pops_get m : forall d k, NoDup (keys d) ->
  pget k (fold_left (fun s (it : nat * nat) => ppop (fst it) (ppop (snd it) s)) m d)
  = if inl k (news m) || inl k (olds m) then None else pget k d.
Proof.
  induction m as [|[n o] r IH]; intros d k H; simpl; [reflexivity|].
  rewrite IH by (apply ppop_nodup, ppop_nodup; exact H).
  rewrite pget_ppop by (apply ppop_nodup; exact H). rewrite pget_ppop by exact H.
  change (inl k (news ((n, o) :: r))) with (Nat.eqb k n || inl k (news r)).
  change (inl k (olds ((n, o) :: r))) with (Nat.eqb k o || inl k (olds r)).
  rewrite (Nat.eqb_sym k n), (Nat.eqb_sym k o).
  destruct (Nat.eqb n k), (Nat.eqb o k), (inl k (news r)), (inl k (olds r)); reflexivity.
Qed.

Lemma rename_fold_deq (d : dict) m : forall a b, deq a b ->
  deq (fold_left (fun s (it : nat * nat) =>
                    if pmem (fst it) d
                    then match pget (fst it) d with Some v => pset (snd it) v s | None => s end
                    else s) m a)
      (fold_left (fun acc (no : nat * nat) =>
                    match pget (fst no) d with Some v => pset (snd no) v acc | None => acc end) m b).
Proof.
  induction m as [|[n o] r IH]; intros a b H; simpl; [exact H|].
  apply IH. unfold pmem. destruct (pget n d); [apply pset_deq; exact H | exact H].
Qed.

Theorem structure_update_src_is_rename_shield (m : rmap) (d : dict) :
  NoDup (keys d) -> deq (structure_update_src m d) (rename_shield m d).
Proof.
  intros H. unfold structure_update_src, rename_shield.
  apply rename_fold_deq. intros k. rewrite pops_get by exact H.
  rewrite (pget_filter (fun x => negb (inl x (news m)) && negb (inl x (olds m))) k d).
  destruct (inl k (news m)), (inl k (olds m)); reflexivity.
Qed.

(* ---------- Model.update_params = model_update ---------- *)
Theorem model_update_src_is_model_update (work defaults incoming : dict) :
  NoDup (keys defaults) ->
  deq (model_update_src work defaults incoming) (model_update defaults incoming).
Proof.
  intros H. unfold model_update_src, model_update. apply pupdate_deq, pupdate_nil, H.
Qed.

(* ---------- Solver.update_params = solver_update ---------- *)
(* the loop over the arguments of one definition: with distinct argument names it rewrites each
   argument's value in place *)
Lemma args_loop (h : nat * val -> option val) (suf : dict) : forall (pre : dict),
  NoDup (keys (pre ++ suf)) ->
  fold_left (fun s (it : nat * val) => match h it with Some v => pset (fst it) v s | None => s end)
            suf (pre ++ suf)
  = pre ++ map (fun kv => (fst kv, match h kv with Some v => v | None => snd kv end)) suf.
Proof.
  induction suf as [|[k v] r IH]; intros pre H; simpl; [reflexivity|].
  assert (Hk : ~ In k (keys pre)).
  { unfold keys in H. rewrite map_app in H. simpl in H. apply NoDup_remove_2 in H.
    intros Hin. apply H. apply in_or_app. left. exact Hin. }
  assert (Hset : forall w, pset k w (pre ++ (k, v) :: r) = pre ++ (k, w) :: r).
  { intros w. clear -Hk. induction pre as [|[a b] p IHp]; simpl; [rewrite Nat.eqb_refl; reflexivity|].
    destruct (Nat.eqb_spec a k) as [->|_]; [exfalso; apply Hk; left; reflexivity|].
    f_equal. apply IHp. intros Hin. apply Hk. right. exact Hin. }
  destruct (h (k, v)) as [w|] eqn:Eh.
  - rewrite Hset. replace (pre ++ (k, w) :: r) with ((pre ++ [(k, w)]) ++ r) by (rewrite <- app_assoc; reflexivity).
    rewrite IH.
    + rewrite <- app_assoc. reflexivity.
    + unfold keys in *. rewrite <- app_assoc. rewrite !map_app in *. simpl in *. exact H.
  - replace (pre ++ (k, v) :: r) with ((pre ++ [(k, v)]) ++ r) by (rewrite <- app_assoc; reflexivity).
    rewrite IH.
    + rewrite <- app_assoc. reflexivity.
    + unfold keys in *. rewrite <- app_assoc. exact H.
Qed.

Definition as_items (adds : list addp) : list (nat * (nat * dict)) :=
  map (fun a => (ap_name a, (ap_fun a, ap_args a))) adds.

Theorem solver_update_src_is_solver_update (work defaults : dict) (adds : list addp) (kw : dict) :
  NoDup (keys defaults) -> (forall a, In a adds -> NoDup (keys (ap_args a))) ->
  deq (solver_update_src fn work defaults (as_items adds) kw) (solver_update fn defaults adds kw).
Proof.
  intros Hd Ha. unfold solver_update_src, solver_update.
  rewrite (fold_pset_map (fun it : nat * (nat * dict) => fst it) _ (as_items adds) []).
  eapply deq_trans; [apply pupdate_via_nil|].
  eapply deq_trans; [apply pupdate_deq, pupdate_deq, pupdate_nil, Hd|].
  unfold as_items. rewrite map_map. cbn [fst snd].
  assert (E : map (fun x : addp => (ap_name x,
                fn (ap_fun x)
                   (fold_left (fun s (it : nat * val) =>
                      if pmem (fst it) kw
                      then match pget (fst it) kw with Some v => pset (fst it) v s | None => s end
                      else if pmem (fst it) defaults
                           then match pget (fst it) defaults with Some v => pset (fst it) v s | None => s end
                           else s) (ap_args x) (ap_args x)))) adds
              = map (fun a => (ap_name a, addp_value fn defaults kw a)) adds).
  { apply map_ext_in. intros a Hin. f_equal. unfold addp_value. f_equal.
    pose (h := fun kv : nat * val => match pget (fst kv) kw with
                                     | Some v => Some v | None => pget (fst kv) defaults end).
    transitivity (fold_left (fun s (it : nat * val) =>
                     match h it with Some v => pset (fst it) v s | None => s end) (ap_args a) (ap_args a)).
    - assert (G : forall l s, fold_left (fun s (it : nat * val) =>
                      if pmem (fst it) kw
                      then match pget (fst it) kw with Some v => pset (fst it) v s | None => s end
                      else if pmem (fst it) defaults
                           then match pget (fst it) defaults with Some v => pset (fst it) v s | None => s end
                           else s) l s
                  = fold_left (fun s (it : nat * val) =>
                      match h it with Some v => pset (fst it) v s | None => s end) l s).
      { induction l as [|x r IHl]; intros s; simpl; [reflexivity|]. rewrite IHl. f_equal.
        unfold h, pmem. destruct (pget (fst x) kw); [reflexivity|].
        destruct (pget (fst x) defaults); reflexivity. }
      apply G.
    - pose proof (args_loop h (ap_args a) [] (Ha a Hin)) as G. cbn [app] in G. rewrite G.
      apply map_ext. intros [k v]. unfold h. simpl.
      destruct (pget k kw); [reflexivity|]. destruct (pget k defaults); reflexivity. }
  rewrite E. apply deq_refl.
Qed.

(* ---------- Solver.add_param: bookkeeping of the defaults (the step node_defaults folds) ---------- *)
Theorem add_param_src_spec (defaults : dict) (name : nat) (args : dict) :
  add_param_src defaults name args
  = if pmem name defaults then Some (pupdate (ppop name defaults) args) else None.
Proof. unfold add_param_src. destruct (pmem name defaults); reflexivity. Qed.

(* ---------- Solver.add_structure: collection of the placed object's defaults ---------- *)
Lemma rget_swap_inv_name m k : NoDup (olds m) ->
  (if inl k (map fst (map (fun nv : nat * nat => (snd nv, fst nv)) m))
   then match rget k (map (fun nv : nat * nat => (snd nv, fst nv)) m) with Some x => x | None => k end
   else k) = inv_name m k.
Proof.
  intros H. unfold inv_name, rget.
  rewrite map_map. cbn [fst snd].
  destruct (find (fun no : nat * nat => Nat.eqb (snd no) k) m) as [[n o]|] eqn:E.
  - apply find_some in E. destruct E as [Hin Ek]. simpl in Ek. apply Nat.eqb_eq in Ek. subst o.
    assert (Hl : inl k (map (fun x : nat * nat => snd x) m) = true).
    { apply inl_In. apply in_map_iff. exists (n, k). auto. }
    rewrite Hl.
    destruct (find (fun on : nat * nat => Nat.eqb (fst on) k) (rev (map (fun nv : nat * nat => (snd nv, fst nv)) m)))
      as [[o' n']|] eqn:F.
    + apply find_some in F. destruct F as [Hin' Ek']. simpl in Ek'. apply Nat.eqb_eq in Ek'. subst o'.
      apply in_rev in Hin'. apply in_map_iff in Hin'. destruct Hin' as ([n2 o2] & E2 & Hin2).
      simpl in E2. injection E2 as -> ->. simpl.
      (* two pairs with the same old name: the same pair *)
      clear -H Hin Hin2. unfold olds in H. induction m as [|[a b] r IH]; [destruct Hin|].
      simpl in H. inversion H as [|? ? Hb Hr]; subst.
      destruct Hin as [E1|Hin], Hin2 as [E2|Hin2].
      * congruence.
      * injection E1 as -> ->. exfalso. apply Hb. apply in_map_iff. exists (n', k). auto.
      * injection E2 as -> ->. exfalso. apply Hb. apply in_map_iff. exists (n, k). auto.
      * apply IH; assumption.
    + exfalso. eapply find_none in F.
      2:{ apply -> in_rev. apply in_map_iff. exists (n, k). split; [reflexivity | exact Hin]. }
      simpl in F. rewrite Nat.eqb_refl in F. discriminate.
  - assert (Hl : inl k (map (fun x : nat * nat => snd x) m) = false).
    { destruct (inl k (map (fun x : nat * nat => snd x) m)) eqn:Ei; [|reflexivity].
      apply inl_In in Ei. apply in_map_iff in Ei. destruct Ei as ([n o] & Eo & Hin). simpl in Eo. subst o.
      eapply find_none in E; [|exact Hin]. simpl in E. rewrite Nat.eqb_refl in E. discriminate. }
    rewrite Hl. reflexivity.
Qed.

Theorem collect_defaults_src_is_collect_defaults (reserved : list nat) (m : rmap) (child mine : dict) :
  NoDup (olds m) -> (forall kv, In kv child -> inl (fst kv) reserved = false) ->
  deq (collect_defaults_src reserved m child mine) (collect_defaults m child mine).
Proof.
  intros Hm Hres. unfold collect_defaults_src, collect_defaults.
  assert (E : forall s,
    fold_left (fun s (it : nat * val) =>
       if inl (fst it) reserved then s
       else if inl (fst it) (map fst (map (fun nv : nat * nat => (snd nv, fst nv)) m))
            then pset (match rget (fst it) (map (fun nv : nat * nat => (snd nv, fst nv)) m) with
                       | Some x => x | None => fst it end) (snd it) s
            else pset (fst it) (snd it) s) child s
    = fold_left (fun acc (it : nat * val) => pset (inv_name m (fst it)) (snd it) acc) child s).
  { clear mine. induction child as [|x r IH]; intros s; simpl; [reflexivity|].
    rewrite (Hres x (or_introl eq_refl)).
    rewrite IH by (intros kv Hin; apply Hres; right; exact Hin). f_equal.
    rewrite <- (rget_swap_inv_name m (fst x) Hm).
    destruct (inl (fst x) (map fst (map (fun nv : nat * nat => (snd nv, fst nv)) m))); reflexivity. }
  rewrite E. rewrite (fold_pset_map (fun it : nat * val => inv_name m (fst it)) (fun it => snd it) child []).
  apply pupdate_via_nil.
Qed.

End ParamsSrcProof.

Print Assumptions structure_update_src_is_rename_shield.
Print Assumptions model_update_src_is_model_update.
Print Assumptions solver_update_src_is_solver_update.
Print Assumptions add_param_src_spec.
Print Assumptions collect_defaults_src_is_collect_defaults.
