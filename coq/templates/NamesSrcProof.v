(* templates/NamesSrcProof.v — fixed proof script appended to the definitions that
   harness/translate_names.py generates from /repo's CURRENT source of Pin.name, Model.update_pins and
   Model.pin_mapping.  For ALL pins, pin lists and renamings: the printable name is Names.pin_name, the
   name table (and its refusals) is Names.update_pins, and a renaming is accepted exactly when
   Names.update_pins (Names.rename_pins ren pins) is, with the same table. *)
Theorem pin_name_src_is_pin_name (p : pin) : pin_name_src p = pin_name p.
Proof. unfold pin_name_src, pin_name. destruct (mode_name p); reflexivity. Qed.

Lemma name_table_err pins : forall acc e, name_table pins acc = Err e -> e = ENameClash.
Proof.
  induction pins as [|p r IH]; intros acc e H; simpl in H; [discriminate|].
  destruct (existsb _ acc); [congruence | eapply IH; exact H].
Qed.

Lemma update_fold pins : forall acc err,
  let r := fold_left (fun '(tab, err) p =>
              if negb (existsb (fun e : string * pin => String.eqb (fst e) (pin_name_src p)) tab)
              then (tab ++ [(pin_name_src p, p)], err) else (tab, true)) pins (acc, err) in
  (err = true -> snd r = true) /\
  (err = false -> match name_table pins acc with
                  | Ok t => r = (t, false)
                  | Err _ => snd r = true end).
Proof.
  induction pins as [|p r IH]; intros acc err; cbn zeta; simpl.
  - split; [intros ->; reflexivity | intros ->; reflexivity].
  - rewrite pin_name_src_is_pin_name.
    destruct (existsb (fun e : string * pin => String.eqb (fst e) (pin_name p)) acc) eqn:E; simpl.
    + destruct (IH acc true) as [H1 _]. split; [intros _; apply H1; reflexivity | intros _; apply H1; reflexivity].
    + destruct (IH (acc ++ [(pin_name p, p)]) err) as [H1 H2]. split; [exact H1 | exact H2].
Qed.

Theorem update_pins_src_is_update_pins (pins : list pin) : update_pins_src pins = update_pins pins.
Proof.
  unfold update_pins_src, update_pins.
  destruct (update_fold pins [] false) as [_ H]. specialize (H eq_refl). cbn zeta in H.
  destruct (name_table pins []) as [t|e] eqn:E.
  - rewrite H. reflexivity.
  - destruct (fold_left _ pins ([], false)) as [tab err]. simpl in H. subst err.
    rewrite (name_table_err pins [] e E). reflexivity.
Qed.

(* ---------- renaming ---------- *)
Lemma rename_is_map_dget ren pins : rename_pins ren pins = map (dget ren) pins.
Proof. reflexivity. Qed.

Definition F (l acc : list pin) : list pin :=
  fold_left (fun acc p => if existsb (pin_eqb p) acc then acc else acc ++ [p]) l acc.

Lemma F_len l : forall acc, List.length (F l acc) <= List.length acc + List.length l.
Proof.
  induction l as [|p r IH]; intros acc; simpl; [lia|]. unfold F in *. simpl.
  destruct (existsb (pin_eqb p) acc).
  - specialize (IH acc). lia.
  - specialize (IH (acc ++ [p])). rewrite app_length in IH. simpl in IH. lia.
Qed.

Lemma existsb_pin_In p acc : existsb (pin_eqb p) acc = true <-> In p acc.
Proof.
  rewrite existsb_exists. split.
  - intros (q & Hq & E). destruct (pin_eqb_spec p q); [subst; exact Hq | discriminate].
  - intros H. exists p. split; [exact H|]. destruct (pin_eqb_spec p p); [reflexivity | congruence].
Qed.

(* no pin lost: nothing in l was already seen, l has no repetition, and the result is acc ++ l *)
Lemma F_full l : forall acc, List.length (F l acc) = List.length acc + List.length l ->
  F l acc = acc ++ l /\ NoDup l /\ (forall p, In p l -> ~ In p acc).
Proof.
  induction l as [|p r IH]; intros acc H; simpl in *.
  - unfold F. simpl. rewrite app_nil_r. split; [reflexivity|]. split; [constructor | intros p []].
  - unfold F in *. simpl in *. destruct (existsb (pin_eqb p) acc) eqn:E.
    + pose proof (F_len r acc) as Hl. unfold F in Hl. lia.
    + assert (H' : List.length (fold_left (fun acc0 p0 => if existsb (pin_eqb p0) acc0 then acc0 else acc0 ++ [p0]) r (acc ++ [p]))
                   = List.length (acc ++ [p]) + List.length r) by (rewrite app_length; simpl; lia).
      destruct (IH (acc ++ [p]) H') as (E1 & E2 & E3).
      split; [rewrite E1, <- app_assoc; reflexivity|].
      assert (Hp : ~ In p acc).
      { intros Hin. apply existsb_pin_In in Hin. congruence. }
      split.
      * constructor; [|exact E2]. intros Hin. apply (E3 p Hin). apply in_or_app. right. left. reflexivity.
      * intros q [<-|Hq]; [exact Hp|]. intros Hin. apply (E3 q Hq). apply in_or_app. left. exact Hin.
Qed.

(* a pin lost: the model's table construction meets its printable name twice *)
Lemma name_table_seen pins : forall acc p,
  In p pins -> In (pin_name p) (map fst acc) -> name_table pins acc = Err ENameClash.
Proof.
  induction pins as [|q r IH]; intros acc p Hin Hacc; [destruct Hin|]. simpl.
  destruct (existsb (fun e : string * pin => String.eqb (fst e) (pin_name q)) acc) eqn:E; [reflexivity|].
  destruct Hin as [->|Hin].
  - exfalso. apply in_map_iff in Hacc. destruct Hacc as ([n x] & En & Hx). simpl in En. subst n.
    assert (existsb (fun e : string * pin => String.eqb (fst e) (pin_name p)) acc = true).
    { apply existsb_exists. exists (pin_name p, x). split; [exact Hx | simpl; apply String.eqb_refl]. }
    congruence.
  - apply (IH _ p Hin). rewrite map_app. apply in_or_app. left. exact Hacc.
Qed.

Lemma name_table_dup pins : forall acc, ~ NoDup pins -> name_table pins acc = Err ENameClash.
Proof.
  induction pins as [|q r IH]; intros acc H; [exfalso; apply H; constructor|]. simpl.
  destruct (existsb (fun e : string * pin => String.eqb (fst e) (pin_name q)) acc) eqn:E; [reflexivity|].
  destruct (in_dec (fun a b => Bool.reflect_dec _ _ (pin_eqb_spec a b)) q r) as [Hin|Hnin].
  - apply (name_table_seen r _ q Hin). rewrite map_app. apply in_or_app. right. left. reflexivity.
  - apply IH. intros Hnd. apply H. constructor; assumption.
Qed.

Theorem pin_mapping_src_is_model (ren : list (pin * pin)) (pins : list pin) :
  pin_mapping_src ren pins = update_pins (rename_pins ren pins).
Proof.
  unfold pin_mapping_src. rewrite rename_is_map_dget. set (L := map (dget ren) pins).
  change (dedup_keys L) with (F L []).
  assert (HL : List.length L = List.length pins) by (unfold L; apply map_length).
  destruct (Nat.eqb_spec (List.length (F L [])) (List.length pins)) as [E|E]; simpl.
  - destruct (F_full L []) as (E1 & _ & _); [simpl; lia|]. rewrite E1. simpl.
    apply update_pins_src_is_update_pins.
  - unfold update_pins. symmetry. apply name_table_dup. intros Hnd.
    apply E. rewrite <- HL. clear -Hnd.
    (* without repetition nothing is lost *)
    assert (G : forall l acc, NoDup l -> (forall p, In p l -> ~ In p acc) -> List.length (F l acc) = List.length acc + List.length l).
    { induction l as [|p r IH]; intros acc Hn Hd; unfold F in *; simpl; [lia|].
      inversion Hn as [|? ? Hp Hr]; subst.
      destruct (existsb (pin_eqb p) acc) eqn:Ex.
      - exfalso. apply existsb_pin_In in Ex. exact (Hd p (or_introl eq_refl) Ex).
      - rewrite IH; [rewrite app_length; simpl; lia | exact Hr |].
        intros q Hq Hin. apply in_app_or in Hin. destruct Hin as [Hin|[<-|[]]].
        + exact (Hd q (or_intror Hq) Hin).
        + exact (Hp Hq). }
    rewrite (G L [] Hnd); [reflexivity | intros p _ []].
Qed.

Print Assumptions pin_name_src_is_pin_name.
Print Assumptions update_pins_src_is_update_pins.
Print Assumptions pin_mapping_src_is_model.
