(* templates/JoinSrcProof.v — fixed proof script appended to the definitions that
   harness/translate_join.py generates from /repo's CURRENT source of Structure.sel_output /
   sel_input / split_in_out / get_S_back.  For every field, every matrix and all pin lists:
   the four blocks cut out by the source are Solve.part (entries addressed through the position of the
   pin in the structure's pin list), the reassembled matrix is Solve.assemble, the new index of a pin is its
   position in (kept pins of the first operand) ++ (kept pins of the second), and the selection routines
   keep the other pins in their order (Solve.keep). *)
Section JoinSrcProof.
Variable K : cfield.
Context {L : cfield_laws K}.

Lemma nth_map_pos (P l : list spin) i : (i < length l)%nat ->
  nth i (map (fun p => pos p P) l) O = pos (nth i l dpin) P.
Proof.
  intros Hi. rewrite (nth_indep _ O (pos dpin P)) by (rewrite map_length; exact Hi).
  apply (map_nth (fun p => pos p P)).
Qed.

Theorem split_src_is_part (A : lst K) (ins outs : list spin) :
  smx_eq (split_src K (l_S A) (fun p => pos p (l_pins A)) ins outs) (part A ins outs).
Proof.
  unfold split_src, part, smx_eq; cbn [sN sM S11 S12 S21 S22].
  repeat split; intros i j Hi Hj; rewrite !tab_ok by assumption;
    rewrite ?nth_map_pos by assumption; reflexivity.
Qed.

Theorem back_src_is_assemble (P : smx K) :
  meq (sN P + sM P) (sN P + sM P) (back_src K P) (assemble P).
Proof.
  unfold back_src, assemble. intros i j Hi Hj. rewrite tab_ok by assumption. reflexivity.
Qed.

Theorem back_rows_ok (P : smx K) : back_rows K P = (sN P + sM P)%nat.
Proof. reflexivity. Qed.

(* the index get_S_back gives a pin is its position among the kept pins of both operands *)
Lemma pos_app_l x l r : In x l -> pos x (l ++ r) = pos x l.
Proof.
  induction l as [|y l IH]; simpl; [tauto|]. intros H.
  destruct (spin_eqb_spec y x); [reflexivity|]. destruct H; [congruence|]. f_equal. auto.
Qed.
Lemma pos_app_r x l r : ~ In x l -> pos x (l ++ r) = (pos x r + length l)%nat.
Proof.
  induction l as [|y l IH]; simpl; intros H; [lia|].
  destruct (spin_eqb_spec y x) as [->|_]; [exfalso; apply H; left; reflexivity|].
  rewrite IH by (intros Hin; apply H; right; exact Hin). lia.
Qed.

Theorem back_index_is_position (P : smx K) (ins outs : list spin) (x : spin) :
  sN P = length ins ->
  (In x ins -> pos x (ins ++ outs) = back_in (pos x ins)) /\
  (~ In x ins -> pos x (ins ++ outs) = back_out K P (pos x outs)).
Proof.
  intros HN. unfold back_in, back_out. split; intros H.
  - apply pos_app_l. exact H.
  - rewrite pos_app_r by exact H. rewrite HN. reflexivity.
Qed.

(* selection: the chosen pins in the given order, the others in the structure's order *)
Lemma remove1_notin x l : ~ In x l -> remove1 x l = l.
Proof.
  induction l as [|y r IH]; simpl; intros H; [reflexivity|].
  destruct (spin_eqb_spec y x) as [->|_]; [exfalso; apply H; left; reflexivity|].
  f_equal. apply IH. intros Hin. apply H. right. exact Hin.
Qed.

Lemma remove1_filter x l : NoDup l -> remove1 x l = filter (fun p => negb (spin_eqb p x)) l.
Proof.
  induction l as [|y r IH]; simpl; intros H; [reflexivity|].
  inversion H as [|? ? Hy Hr]; subst.
  destruct (spin_eqb_spec y x) as [->|Hne]; simpl.
  - rewrite <- (remove1_notin x r Hy) at 1. rewrite IH by exact Hr. reflexivity.
  - f_equal. apply IH. exact Hr.
Qed.

Lemma filter_NoDup (g : spin -> bool) l : NoDup l -> NoDup (filter g l).
Proof.
  induction l as [|y r IH]; simpl; intros H; [constructor|].
  inversion H as [|? ? Hy Hr]; subst. destruct (g y); [|apply IH; exact Hr].
  constructor; [|apply IH; exact Hr]. intros Hin. apply Hy. apply filter_In in Hin. tauto.
Qed.

Lemma sel_fold (sel : list spin) : forall pins acc, NoDup pins ->
  fold_left (fun (st : list spin * list spin) p => (remove1 p (fst st), snd st ++ [p])) sel (pins, acc)
  = (filter (fun p => negb (mem p sel)) pins, acc ++ sel).
Proof.
  induction sel as [|x r IH]; intros pins acc H; simpl.
  - rewrite app_nil_r. f_equal. clear. induction pins as [|y l IHl]; simpl; [reflexivity | f_equal; exact IHl].
  - rewrite IH by (rewrite remove1_filter by exact H; apply filter_NoDup; exact H).
    rewrite remove1_filter by exact H. rewrite <- app_assoc. f_equal.
    clear. induction pins as [|y l IHl]; simpl; [reflexivity|].
    destruct (spin_eqb y x) eqn:E.
    + rewrite (proj2 (Bool.reflect_iff _ _ (spin_eqb_spec y x)) E) in *.
      simpl. rewrite spin_eqb_refl. simpl. exact IHl.
    + simpl. assert (E' : spin_eqb x y = false).
      { destruct (spin_eqb_spec x y) as [->|]; [rewrite spin_eqb_refl in E; discriminate | reflexivity]. }
      rewrite E'. simpl. destruct (mem y r); simpl; [exact IHl | f_equal; exact IHl].
Qed.

Theorem sel_out_src_is_keep (pins sel : list spin) : NoDup pins ->
  sel_out_src pins sel = (keep sel pins, sel).
Proof. intros H. unfold sel_out_src, keep. rewrite sel_fold by exact H. reflexivity. Qed.

Theorem sel_in_src_is_keep (pins sel : list spin) : NoDup pins ->
  sel_in_src pins sel = (keep sel pins, sel).
Proof. intros H. unfold sel_in_src, keep. rewrite sel_fold by exact H. reflexivity. Qed.

(* the pin list of a joined structure: A's kept pins then B's kept pins, each indexed by its position *)
Lemma rem_fold_filter (sel : list spin) : forall pins, NoDup pins ->
  fold_left (fun l p => remove1 p l) sel pins = filter (fun p => negb (mem p sel)) pins.
Proof.
  intros pins H.
  pose proof (sel_fold sel pins [] H) as E.
  assert (G : forall (l : list spin) st,
             fst (fold_left (fun (st : list spin * list spin) p => (remove1 p (fst st), snd st ++ [p])) l st)
             = fold_left (fun l p => remove1 p l) l (fst st)).
  { induction l as [|x r IH]; intros st; simpl; [reflexivity|]. rewrite IH. reflexivity. }
  specialize (G sel (pins, [])). cbn [fst] in G. rewrite <- G, E. reflexivity.
Qed.

Lemma app_disj {A} (l l' : list A) x : NoDup (l ++ l') -> In x l -> In x l' -> False.
Proof.
  induction l as [|y r IH]; simpl; intros H Hl Hl'; [exact Hl|].
  inversion H as [|? ? Hy Hr]; subst. destruct Hl as [->|Hl].
  - apply Hy. apply in_or_app. right. exact Hl'.
  - exact (IH Hr Hl Hl').
Qed.

Lemma add_pin_loop : forall l pl pd n, NoDup (pl ++ l) -> List.length pl = n ->
  fold_left (fun (st : list spin * list (spin * nat) * nat * bool) pin =>
               let '(pin_list, pin_dic, N, err) := st in
               if err then st else
               if mem pin pin_list then (pin_list, pin_dic, N, true)
               else (pin_list ++ [pin], pin_dic ++ [(pin, N)], (N + 1)%nat, false)) l (pl, pd, n, false)
  = (pl ++ l, pd ++ combine l (seq n (List.length l)), (n + List.length l)%nat, false).
Proof.
  induction l as [|x r IH]; intros pl pd n Hn Hl; simpl.
  - rewrite !app_nil_r, Nat.add_0_r. reflexivity.
  - assert (Hx : mem x pl = false).
    { apply mem_nIn. intros Hin. apply NoDup_remove_2 in Hn. apply Hn. apply in_or_app. left. exact Hin. }
    rewrite Hx. rewrite IH.
    + rewrite <- !app_assoc. cbn [app List.length seq combine].
      replace (n + 1)%nat with (S n) by lia.
      replace (S n + List.length r)%nat with (n + S (List.length r))%nat by lia. reflexivity.
    + rewrite <- app_assoc. exact Hn.
    + rewrite app_length. simpl. lia.
Qed.

Theorem join_pins_src_is_keep (pinsA pinsB xs ys : list spin) :
  NoDup (pinsA ++ pinsB) -> incl xs pinsA -> incl ys pinsB ->
  join_pins_src pinsA pinsB xs ys =
    (keep xs pinsA ++ keep ys pinsB,
     combine (keep xs pinsA ++ keep ys pinsB) (seq 0 (List.length (keep xs pinsA ++ keep ys pinsB))),
     List.length (keep xs pinsA ++ keep ys pinsB), false).
Proof.
  intros Hn Hx Hy. unfold join_pins_src. cbv zeta.
  rewrite rem_fold_filter by exact Hn. rewrite filter_app.
  assert (EA : filter (fun p => negb (mem p (xs ++ ys))) pinsA = keep xs pinsA).
  { unfold keep. apply filter_ext_in. intros p Hp. f_equal.
    destruct (mem p xs) eqn:E1.
    - apply mem_In in E1. apply mem_In. apply in_or_app. left. exact E1.
    - apply mem_nIn. apply mem_nIn in E1. intros Hin. apply in_app_or in Hin. destruct Hin as [Hin|Hin]; [exact (E1 Hin)|].
      exact (app_disj pinsA pinsB p Hn Hp (Hy p Hin)). }
  assert (EB : filter (fun p => negb (mem p (xs ++ ys))) pinsB = keep ys pinsB).
  { unfold keep. apply filter_ext_in. intros p Hp. f_equal.
    destruct (mem p ys) eqn:E1.
    - apply mem_In in E1. apply mem_In. apply in_or_app. right. exact E1.
    - apply mem_nIn. apply mem_nIn in E1. intros Hin. apply in_app_or in Hin. destruct Hin as [Hin|Hin]; [|exact (E1 Hin)].
      exact (app_disj pinsA pinsB p Hn (Hx p Hin) Hp). }
  rewrite EA, EB.
  rewrite (add_pin_loop (keep xs pinsA ++ keep ys pinsB) [] [] 0%nat); [reflexivity | | reflexivity].
  cbn [app]. unfold keep.
  assert (Hd : forall (f g : spin -> bool) a b, NoDup (a ++ b) -> NoDup (filter f a ++ filter g b)).
  { intros f g a. induction a as [|y r IH]; intros b H; simpl.
    - apply filter_NoDup. exact H.
    - inversion H as [|? ? Hy' Hr]; subst. destruct (f y); [|apply IH; exact Hr].
      simpl. constructor; [|apply IH; exact Hr]. intros Hin. apply Hy'. apply in_app_or in Hin. apply in_or_app.
      destruct Hin as [Hin|Hin]; [left | right]; apply filter_In in Hin; tauto. }
  apply Hd. exact Hn.
Qed.

End JoinSrcProof.

Print Assumptions split_src_is_part.
Print Assumptions back_src_is_assemble.
Print Assumptions back_index_is_position.
Print Assumptions sel_out_src_is_keep.
Print Assumptions sel_in_src_is_keep.
Print Assumptions join_pins_src_is_keep.
