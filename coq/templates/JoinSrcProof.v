(* templates/JoinSrcProof.v — fixed proof script appended to the definitions that
   harness/translate_join.py generates from /repo's CURRENT source of Structure.sel_output /
   sel_input / split_in_out / get_S_back.  For every field, every matrix and all pin lists:
   the four blocks cut out by the source are Solve.part (entries addressed through the position of the
   pin in the structure's pin list), the reassembled matrix is Solve.assemble, the new index of a pin is its
   position in (kept pins of the first operand) ++ (kept pins of the second), and the selection routines
   keep the other pins in their order (Solve.keep).  Last section: the pins Structure.join hands to them
   (get_out_to / get_in_from / the pairing loop) are the entries of the first operand's link table that point into the
   second operand, paired with their recorded partners, and those are exactly Solve.links; the merged structure's link
   table is the operands' tables without the entries internal to it, its neighbour list the operands' outside neighbours. *)
Section JoinSrcProof.
Variable K : cfield.
Context {L : cfield_laws K}.

Lemma nth_map_pos (P l : list spin) i : (i < length l)%nat ->
  nth i (map (fun p => pos p P) l) O = pos (nth i l dpin) P.
Proof.
  intros Hi. rewrite (nth_indep _ O (pos dpin P)) by (rewrite map_length; exact Hi).
  apply (map_nth (fun p => pos p P)).
Qed.

Theorem split_src_is_part (A : lst K) (ins outs : list spin) :
  smx_eq (split_src K (l_S A) (fun p => pos p (l_pins A)) ins outs) (part A ins outs).
Proof.
  unfold split_src, part, smx_eq; cbn [sN sM S11 S12 S21 S22].
  repeat split; intros i j Hi Hj; rewrite !tab_ok by assumption;
    rewrite ?nth_map_pos by assumption; reflexivity.
Qed.

Theorem back_src_is_assemble (P : smx K) :
  meq (sN P + sM P) (sN P + sM P) (back_src K P) (assemble P).
Proof.
  unfold back_src, assemble. intros i j Hi Hj. rewrite tab_ok by assumption. reflexivity.
Qed.

Theorem back_rows_ok (P : smx K) : back_rows K P = (sN P + sM P)%nat.
Proof. reflexivity. Qed.

(* the index get_S_back gives a pin is its position among the kept pins of both operands *)
Lemma pos_app_l x l r : In x l -> pos x (l ++ r) = pos x l.
Proof.
  induction l as [|y l IH]; simpl; [tauto|]. intros H.
  destruct (spin_eqb_spec y x); [reflexivity|]. destruct H; [congruence|]. f_equal. auto.
Qed.
Lemma pos_app_r x l r : ~ In x l -> pos x (l ++ r) = (pos x r + length l)%nat.
Proof.
  induction l as [|y l IH]; simpl; intros H; [lia|].
  destruct (spin_eqb_spec y x) as [->|_]; [exfalso; apply H; left; reflexivity|].
  rewrite IH by (intros Hin; apply H; right; exact Hin). lia.
Qed.

Theorem back_index_is_position (P : smx K) (ins outs : list spin) (x : spin) :
  sN P = length ins ->
  (In x ins -> pos x (ins ++ outs) = back_in (pos x ins)) /\
  (~ In x ins -> pos x (ins ++ outs) = back_out K P (pos x outs)).
Proof.
  intros HN. unfold back_in, back_out. split; intros H.
  - apply pos_app_l. exact H.
  - rewrite pos_app_r by exact H. rewrite HN. reflexivity.
Qed.

(* selection: the chosen pins in the given order, the others in the structure's order *)
Lemma remove1_notin x l : ~ In x l -> remove1 x l = l.
Proof.
  induction l as [|y r IH]; simpl; intros H; [reflexivity|].
  destruct (spin_eqb_spec y x) as [->|_]; [exfalso; apply H; left; reflexivity|].
  f_equal. apply IH. intros Hin. apply H. right. exact Hin.
Qed.

Lemma remove1_filter x l : NoDup l -> remove1 x l = filter (fun p => negb (spin_eqb p x)) l.
Proof.
  induction l as [|y r IH]; simpl; intros H; [reflexivity|].
  inversion H as [|? ? Hy Hr]; subst.
  destruct (spin_eqb_spec y x) as [->|Hne]; simpl.
  - rewrite <- (remove1_notin x r Hy) at 1. rewrite IH by exact Hr. reflexivity.
  - f_equal. apply IH. exact Hr.
Qed.

Lemma filter_NoDup (g : spin -> bool) l : NoDup l -> NoDup (filter g l).
Proof.
  induction l as [|y r IH]; simpl; intros H; [constructor|].
  inversion H as [|? ? Hy Hr]; subst. destruct (g y); [|apply IH; exact Hr].
  constructor; [|apply IH; exact Hr]. intros Hin. apply Hy. apply filter_In in Hin. tauto.
Qed.

Lemma sel_fold (sel : list spin) : forall pins acc, NoDup pins ->
  fold_left (fun (st : list spin * list spin) p => (remove1 p (fst st), snd st ++ [p])) sel (pins, acc)
  = (filter (fun p => negb (mem p sel)) pins, acc ++ sel).
Proof.
  induction sel as [|x r IH]; intros pins acc H; simpl.
  - rewrite app_nil_r. f_equal. clear. induction pins as [|y l IHl]; simpl; [reflexivity | f_equal; exact IHl].
  - rewrite IH by (rewrite remove1_filter by exact H; apply filter_NoDup; exact H).
    rewrite remove1_filter by exact H. rewrite <- app_assoc. f_equal.
    clear. induction pins as [|y l IHl]; simpl; [reflexivity|].
    destruct (spin_eqb y x) eqn:E.
    + rewrite (proj2 (Bool.reflect_iff _ _ (spin_eqb_spec y x)) E) in *.
      simpl. rewrite spin_eqb_refl. simpl. exact IHl.
    + simpl. assert (E' : spin_eqb x y = false).
      { destruct (spin_eqb_spec x y) as [->|]; [rewrite spin_eqb_refl in E; discriminate | reflexivity]. }
      rewrite E'. simpl. destruct (mem y r); simpl; [exact IHl | f_equal; exact IHl].
Qed.

Theorem sel_out_src_is_keep (pins sel : list spin) : NoDup pins ->
  sel_out_src pins sel = (keep sel pins, sel).
Proof. intros H. unfold sel_out_src, keep. rewrite sel_fold by exact H. reflexivity. Qed.

Theorem sel_in_src_is_keep (pins sel : list spin) : NoDup pins ->
  sel_in_src pins sel = (keep sel pins, sel).
Proof. intros H. unfold sel_in_src, keep. rewrite sel_fold by exact H. reflexivity. Qed.

(* the pin list of a joined structure: A's kept pins then B's kept pins, each indexed by its position *)
Lemma rem_fold_filter (sel : list spin) : forall pins, NoDup pins ->
  fold_left (fun l p => remove1 p l) sel pins = filter (fun p => negb (mem p sel)) pins.
Proof.
  intros pins H.
  pose proof (sel_fold sel pins [] H) as E.
  assert (G : forall (l : list spin) st,
             fst (fold_left (fun (st : list spin * list spin) p => (remove1 p (fst st), snd st ++ [p])) l st)
             = fold_left (fun l p => remove1 p l) l (fst st)).
  { induction l as [|x r IH]; intros st; simpl; [reflexivity|]. rewrite IH. reflexivity. }
  specialize (G sel (pins, [])). cbn [fst] in G. rewrite <- G, E. reflexivity.
Qed.

Lemma app_disj {A} (l l' : list A) x : NoDup (l ++ l') -> In x l -> In x l' -> False.
Proof.
  induction l as [|y r IH]; simpl; intros H Hl Hl'; [exact Hl|].
  inversion H as [|? ? Hy Hr]; subst. destruct Hl as [->|Hl].
  - apply Hy. apply in_or_app. right. exact Hl'.
  - exact (IH Hr Hl Hl').
Qed.

Lemma add_pin_loop : forall l pl pd n, NoDup (pl ++ l) -> List.length pl = n ->
  fold_left (fun (st : list spin * list (spin * nat) * nat * bool) pin =>
               let '(pin_list, pin_dic, N, err) := st in
               if err then st else
               if mem pin pin_list then (pin_list, pin_dic, N, true)
               else (pin_list ++ [pin], pin_dic ++ [(pin, N)], (N + 1)%nat, false)) l (pl, pd, n, false)
  = (pl ++ l, pd ++ combine l (seq n (List.length l)), (n + List.length l)%nat, false).
Proof.
  induction l as [|x r IH]; intros pl pd n Hn Hl; simpl.
  - rewrite !app_nil_r, Nat.add_0_r. reflexivity.
  - assert (Hx : mem x pl = false).
    { apply mem_nIn. intros Hin. apply NoDup_remove_2 in Hn. apply Hn. apply in_or_app. left. exact Hin. }
    rewrite Hx. rewrite IH.
    + rewrite <- !app_assoc. cbn [app List.length seq combine].
      replace (n + 1)%nat with (S n) by lia.
      replace (S n + List.length r)%nat with (n + S (List.length r))%nat by lia. reflexivity.
    + rewrite <- app_assoc. exact Hn.
    + rewrite app_length. simpl. lia.
Qed.

Theorem join_pins_src_is_keep (pinsA pinsB xs ys : list spin) :
  NoDup (pinsA ++ pinsB) -> incl xs pinsA -> incl ys pinsB ->
  join_pins_src pinsA pinsB xs ys =
    (keep xs pinsA ++ keep ys pinsB,
     combine (keep xs pinsA ++ keep ys pinsB) (seq 0 (List.length (keep xs pinsA ++ keep ys pinsB))),
     List.length (keep xs pinsA ++ keep ys pinsB), false).
Proof.
  intros Hn Hx Hy. unfold join_pins_src. cbv zeta.
  rewrite rem_fold_filter by exact Hn. rewrite filter_app.
  assert (EA : filter (fun p => negb (mem p (xs ++ ys))) pinsA = keep xs pinsA).
  { unfold keep. apply filter_ext_in. intros p Hp. f_equal.
    destruct (mem p xs) eqn:E1.
    - apply mem_In in E1. apply mem_In. apply in_or_app. left. exact E1.
    - apply mem_nIn. apply mem_nIn in E1. intros Hin. apply in_app_or in Hin. destruct Hin as [Hin|Hin]; [exact (E1 Hin)|].
      exact (app_disj pinsA pinsB p Hn Hp (Hy p Hin)). }
  assert (EB : filter (fun p => negb (mem p (xs ++ ys))) pinsB = keep ys pinsB).
  { unfold keep. apply filter_ext_in. intros p Hp. f_equal.
    destruct (mem p ys) eqn:E1.
    - apply mem_In in E1. apply mem_In. apply in_or_app. right. exact E1.
    - apply mem_nIn. apply mem_nIn in E1. intros Hin. apply in_app_or in Hin. destruct Hin as [Hin|Hin]; [|exact (E1 Hin)].
      exact (app_disj pinsA pinsB p Hn (Hx p Hin) Hp). }
  rewrite EA, EB.
  rewrite (add_pin_loop (keep xs pinsA ++ keep ys pinsB) [] [] 0%nat); [reflexivity | | reflexivity].
  cbn [app]. unfold keep.
  assert (Hd : forall (f g : spin -> bool) a b, NoDup (a ++ b) -> NoDup (filter f a ++ filter g b)).
  { intros f g a. induction a as [|y r IH]; intros b H; simpl.
    - apply filter_NoDup. exact H.
    - inversion H as [|? ? Hy' Hr]; subst. destruct (f y); [|apply IH; exact Hr].
      simpl. constructor; [|apply IH; exact Hr]. intros Hin. apply Hy'. apply in_app_or in Hin. apply in_or_app.
      destruct Hin as [Hin|Hin]; [left | right]; apply filter_In in Hin; tauto. }
  apply Hd. exact Hn.
Qed.

End JoinSrcProof.

Print Assumptions split_src_is_part.
Print Assumptions back_src_is_assemble.
Print Assumptions back_index_is_position.
Print Assumptions sel_out_src_is_keep.
Print Assumptions sel_in_src_is_keep.
Print Assumptions join_pins_src_is_keep.

(* ---- which pins are joined: Structure.get_out_to / get_in_from / the selection in Structure.join ---- *)
Section JoinLinksProof.
Variable K : cfield.

Definition sel_to (targets : list nat) (it : spin * spin) : bool := idmem (fst (snd it)) targets.

Lemma fold_sel_app {A} (f : spin * spin -> bool) (g : spin * spin -> A) : forall l acc,
  fold_left (fun pl it => if f it then pl ++ [g it] else pl) l acc = acc ++ map g (filter f l).
Proof.
  induction l as [|it r IH]; intros acc; simpl; [rewrite app_nil_r; reflexivity|].
  rewrite IH. destruct (f it); simpl; [rewrite <- app_assoc; reflexivity | reflexivity].
Qed.

Theorem get_out_to_src_is_filter cdA targets :
  get_out_to_src cdA targets = map fst (filter (sel_to targets) cdA).
Proof. unfold get_out_to_src. rewrite (fold_sel_app (sel_to targets) fst). reflexivity. Qed.

Theorem get_in_from_src_is_filter cdA targets :
  get_in_from_src cdA targets = map snd (filter (sel_to targets) cdA).
Proof. unfold get_in_from_src. rewrite (fold_sel_app (sel_to targets) snd). reflexivity. Qed.

Lemma existsb_false {A} (f : A -> bool) l : existsb f l = false -> forall x, In x l -> f x = false.
Proof.
  intros E x Hx. destruct (f x) eqn:Ef; [|reflexivity]. rewrite <- E. symmetry. apply existsb_exists. exists x. split; assumption.
Qed.

Lemma cget_In x y d : NoDup (map fst d) -> In (x, y) d -> cget x d = Some y.
Proof.
  induction d as [|it r IH]; simpl; [tauto|]. intros Hn [He|Hin].
  - subst it. simpl. rewrite spin_eqb_refl. reflexivity.
  - inversion Hn as [|? ? Hni Hr]; subst. destruct (spin_eqb_spec (fst it) x) as [Hx|Hx].
    + exfalso. apply Hni. subst x. apply (in_map fst) in Hin. exact Hin.
    + apply IH; assumption.
Qed.

Lemma cget_Some_In x y d : cget x d = Some y -> In (x, y) d.
Proof.
  induction d as [|it r IH]; simpl; [discriminate|].
  destruct (spin_eqb_spec (fst it) x) as [Hx|Hx].
  - intros H. injection H as <-. left. subst x. destruct it; reflexivity.
  - intros H. right. apply IH. exact H.
Qed.

(* a dict: distinct keys.  When join accepts, the pins of the first operand it hands to sel_output and the pins of the
   second it hands to sel_input are, position by position, the entries of the first operand's link table that point into
   the second operand — in the table's order — and the second operand's table points back for each of them *)
Theorem join_links_src_selects cdA cdB targets lo ti :
  NoDup (map fst cdA) ->
  join_links_src cdA cdB targets = Some (lo, ti) ->
  combine lo ti = filter (sel_to targets) cdA /\
  List.length lo = List.length ti /\
  forall x y, In (x, y) (combine lo ti) -> cget y cdB = Some x.
Proof.
  intros Hn. unfold join_links_src. cbv zeta.
  rewrite get_out_to_src_is_filter, get_in_from_src_is_filter.
  match goal with |- (if ?b then _ else _) = _ -> _ => destruct b; [discriminate|] end.
  match goal with |- (if ?b then _ else _) = _ -> _ => destruct b eqn:E1; [discriminate|] end.
  match goal with |- (if ?b then _ else _) = _ -> _ => destruct b eqn:E2; [discriminate|] end.
  intros H. injection H as <- <-.
  assert (Hsub : forall it, In it (filter (sel_to targets) cdA) -> cget (fst it) cdA = Some (snd it)).
  { intros [x y] Hin. apply filter_In in Hin. apply cget_In; [exact Hn | exact (proj1 Hin)]. }
  assert (Hmap : map (fun pin => match cget pin cdA with Some y => y | None => dpin end)
                     (map fst (filter (sel_to targets) cdA)) = map snd (filter (sel_to targets) cdA)).
  { rewrite map_map. apply map_ext_in. intros it Hin. rewrite (Hsub it Hin). reflexivity. }
  rewrite Hmap.
  assert (Hc : forall l : list (spin * spin), combine (map fst l) (map snd l) = l).
  { induction l as [|[a b] r IH]; simpl; [reflexivity | rewrite IH; reflexivity]. }
  rewrite Hc. split; [reflexivity|]. split; [rewrite !map_length; reflexivity|].
  intros x y Hin.
  assert (Hx : In x (map fst (filter (sel_to targets) cdA))).
  { apply (in_map fst) in Hin. exact Hin. }
  pose proof (existsb_false _ _ E1 x Hx) as Hne. cbv beta in Hne.
  pose proof (Hsub (x, y) Hin) as Hs. simpl in Hs. rewrite Hs in Hne.
  destruct (cget y cdB) as [z|] eqn:Ez; [|discriminate].
  destruct (spin_eqb_spec x z) as [->|Hxz]; [reflexivity | discriminate].
Qed.

(* the selected entries are exactly the model's links between the two operands (Solve.links), whenever the first operand's
   table records the network's connections of its own pins and the second operand's pins are the free pins of `targets` *)
Theorem join_links_src_are_links (cs : list conn) (A B : lst K) cdA targets :
  (forall x y, In (x, y) cdA <-> In x (l_pins A) /\ partner cs x = Some y) ->
  (forall x y, In (x, y) cdA -> mem y (l_pins B) = idmem (fst y) targets) ->
  forall x y, In (x, y) (filter (sel_to targets) cdA) <-> In (x, y) (links cs A B).
Proof.
  intros Hrep HB x y. unfold links. rewrite filter_In, in_flat_map. unfold sel_to. simpl. split.
  - intros [Hin Hs]. pose proof (proj1 (Hrep x y) Hin) as [HA Hp]. exists x. split; [exact HA|].
    rewrite Hp. rewrite (HB x y Hin), Hs. left. reflexivity.
  - intros [x' [HA Hin]]. destruct (partner cs x') as [y'|] eqn:Hp; [|destruct Hin].
    destruct (mem y' (l_pins B)) eqn:Hm; [|destruct Hin]. destruct Hin as [He|[]]. injection He as -> ->.
    assert (Hc : In (x, y) cdA) by (apply Hrep; split; assumption).
    split; [exact Hc|]. rewrite <- (HB x y Hc). exact Hm.
Qed.

(* the hypotheses are satisfiable and the routine accepts: two of the three links of structure 1 go to structure 2 *)
Example join_links_src_nonvacuous :
  join_links_src [((1, 0), (2, 1)); ((1, 1), (3, 0)); ((1, 2), (2, 0))]%nat [((2, 1), (1, 0)); ((2, 0), (1, 2))]%nat [2%nat]
  = Some ([(1, 0); (1, 2)]%nat, [(2, 1); (2, 0)]%nat).
Proof. reflexivity. Qed.
(* ... and refuses when the second table does not point back *)
Example join_links_src_refuses :
  join_links_src [((1, 0), (2, 1))]%nat [((2, 1), (1, 5))]%nat [2%nat] = None.
Proof. reflexivity. Qed.

End JoinLinksProof.

Print Assumptions get_out_to_src_is_filter.
Print Assumptions get_in_from_src_is_filter.
Print Assumptions join_links_src_selects.
Print Assumptions join_links_src_are_links.

(* ---- the link table and the neighbour list Structure.join gives the merged structure ---- *)
Section JoinConnProof.

Definition crosses (structs : list nat) (it : spin * spin) : bool :=
  negb (idmem (fst (fst it)) structs && idmem (fst (snd it)) structs).

Lemma cset_fresh k v d : ~ In k (map fst d) -> cset k v d = d ++ [(k, v)].
Proof.
  induction d as [|it r IH]; simpl; [reflexivity|]. intros Hn.
  destruct (spin_eqb_spec (fst it) k) as [He|He]; [exfalso; apply Hn; left; exact He|].
  rewrite IH; [reflexivity|]. intros Hin. apply Hn. right. exact Hin.
Qed.

Lemma NoDup_keys_mid (acc : list (spin * spin)) it r :
  NoDup (map fst (acc ++ it :: r)) -> ~ In (fst it) (map fst acc) /\ NoDup (map fst (acc ++ r)).
Proof.
  rewrite !map_app. simpl. intros H. split.
  - intros Hin. apply NoDup_remove_2 in H. apply H. apply in_or_app. left. exact Hin.
  - apply NoDup_remove_1 in H. exact H.
Qed.

Lemma fold_cset_filter (f : spin * spin -> bool) : forall l acc, NoDup (map fst (acc ++ l)) ->
  fold_left (fun d it => if f it then cset (fst it) (snd it) d else d) l acc = acc ++ filter f l.
Proof.
  induction l as [|it r IH]; intros acc Hn; simpl; [rewrite app_nil_r; reflexivity|].
  destruct (NoDup_keys_mid acc it r Hn) as [Hfresh Hrest].
  destruct (f it).
  - rewrite cset_fresh by exact Hfresh. rewrite IH.
    + rewrite <- app_assoc. destruct it; reflexivity.
    + rewrite <- app_assoc. destruct it; exact Hn.
  - apply IH. exact Hrest.
Qed.

Lemma dict_merge_disjoint a b : NoDup (map fst (a ++ b)) -> dict_merge a b = a ++ b.
Proof.
  intros Hn. unfold dict_merge.
  rewrite (fold_cset_filter (fun _ => true) b a Hn).
  f_equal. induction b as [|x r IH]; simpl; [reflexivity|]. f_equal. apply IH.
  apply (NoDup_keys_mid a x r) in Hn. exact (proj2 Hn).
Qed.

(* the operands' tables have distinct keys (two dicts over disjoint pin sets): the merged structure's table is the two
   tables one after the other without the entries whose two ends both lie inside the merged structure *)
Theorem join_conn_src_is_filter cdA cdB structs : NoDup (map fst (cdA ++ cdB)) ->
  join_conn_src cdA cdB structs = filter (crosses structs) (cdA ++ cdB).
Proof.
  intros Hn. unfold join_conn_src. rewrite (dict_merge_disjoint cdA cdB Hn).
  exact (fold_cset_filter (crosses structs) (cdA ++ cdB) [] Hn).
Qed.

Lemma idmem_In n l : idmem n l = true <-> In n l.
Proof.
  unfold idmem. rewrite existsb_exists. split.
  - intros [x [Hx He]]. apply Nat.eqb_eq in He. subst. exact Hx.
  - intros H. exists n. split; [exact H | apply Nat.eqb_refl].
Qed.

Lemma nodup_snoc {A} (l : list A) x : NoDup l -> ~ In x l -> NoDup (l ++ [x]).
Proof.
  induction l as [|y r IH]; simpl; intros Hn Hx; [constructor; [intros []|constructor]|].
  inversion Hn as [|? ? Hy Hr]; subst. constructor.
  - intros Hin. apply in_app_or in Hin. destruct Hin as [H|[H|[]]]; [exact (Hy H)|]. subst. apply Hx. left. reflexivity.
  - apply IH; [exact Hr|]. intros H. apply Hx. right. exact H.
Qed.

Lemma join_to_fold structs : forall l acc, NoDup acc -> (forall s, In s acc -> ~ In s structs) ->
  let r := fold_left (fun l s => if negb (idmem s l) && negb (idmem s structs) then l ++ [s] else l) l acc in
  NoDup r /\ forall s, In s r <-> In s acc \/ (In s l /\ ~ In s structs).
Proof.
  induction l as [|x t IH]; intros acc Hn Hs; simpl.
  - split; [exact Hn|]. intros s. tauto.
  - destruct (idmem x acc) eqn:E1; simpl.
    + destruct (IH acc Hn Hs) as [H1 H2]. split; [exact H1|]. intros s. rewrite H2.
      apply idmem_In in E1. split; [tauto|]. intros [H|[[H|H] H']]; [tauto | subst; tauto | tauto].
    + destruct (idmem x structs) eqn:E2; simpl.
      * destruct (IH acc Hn Hs) as [H1 H2]. split; [exact H1|]. intros s. rewrite H2.
        apply idmem_In in E2. split; [tauto|]. intros [H|[[H|H] H']]; [tauto | subst; contradiction | tauto].
      * assert (Hx : ~ In x acc) by (intros H; apply idmem_In in H; congruence).
        assert (Hxs : ~ In x structs) by (intros H; apply idmem_In in H; congruence).
        destruct (IH (acc ++ [x])) as [H1 H2].
        { apply nodup_snoc; assumption. }
        { intros s Hin. apply in_app_or in Hin. destruct Hin as [Hin|[<-|[]]]; [apply Hs; exact Hin | exact Hxs]. }
        split; [exact H1|]. intros s. rewrite H2. rewrite in_app_iff. simpl. split.
        -- intros [[H|[H|[]]]|H]; [tauto | subst; tauto | tauto].
        -- intros [H|[[H|H] H']]; [tauto | subst; tauto | tauto].
Qed.

(* the neighbours of the merged structure: every neighbour of an operand that is not inside the merged structure, once *)
Theorem join_to_src_spec toA toB structs :
  NoDup (join_to_src toA toB structs) /\
  forall s, In s (join_to_src toA toB structs) <-> (In s toA \/ In s toB) /\ ~ In s structs.
Proof.
  destruct (join_to_fold structs (toA ++ toB) [] (NoDup_nil _) (fun s H => match H with end)) as [H1 H2].
  split; [exact H1|]. intros s. unfold join_to_src. rewrite H2. rewrite in_app_iff. simpl. tauto.
Qed.

Example join_conn_src_nonvacuous :
  join_conn_src [((1, 0), (2, 1)); ((1, 1), (3, 0))]%nat [((2, 1), (1, 0)); ((2, 0), (4, 2))]%nat [1; 2]%nat
  = [((1, 1), (3, 0)); ((2, 0), (4, 2))]%nat
  /\ join_to_src [2; 3]%nat [1; 4; 3]%nat [1; 2]%nat = [3; 4]%nat.
Proof. split; reflexivity. Qed.

End JoinConnProof.

Print Assumptions join_conn_src_is_filter.
Print Assumptions join_to_src_spec.

(* the hypotheses of join_links_src_are_links are met by a concrete circuit: structure 1 (three pins) has two links to
   structure 2 and one to structure 3; its link table lists them in another order than its pin list *)
Section JoinLinksExample.
Variable K : cfield.
Let cs : list conn := [((1, 0), (2, 1)); ((2, 0), (1, 2)); ((1, 1), (3, 0))]%nat.
Let A : lst K := {| l_pins := [(1, 0); (1, 1); (1, 2)]%nat; l_S := mzero |}.
Let B : lst K := {| l_pins := [(2, 0); (2, 1); (2, 2)]%nat; l_S := mzero |}.
Let cdA : list (spin * spin) := [((1, 2), (2, 0)); ((1, 0), (2, 1)); ((1, 1), (3, 0))]%nat.

Example join_links_hypotheses_satisfiable :
  (forall x y, In (x, y) cdA <-> In x (l_pins A) /\ partner cs x = Some y) /\
  (forall x y, In (x, y) cdA -> mem y (l_pins B) = idmem (fst y) [2%nat]) /\
  NoDup (map fst cdA) /\
  join_links_src cdA [((2, 0), (1, 2)); ((2, 1), (1, 0))]%nat [2%nat] = Some ([(1, 2); (1, 0)]%nat, [(2, 0); (2, 1)]%nat).
Proof.
  split; [|split; [|split]].
  - intros x y. split.
    + intros [H|[H|[H|[]]]]; injection H as <- <-; (split; [simpl; tauto | reflexivity]).
    + intros [[H|[H|[H|[]]]] Hp]; subst x; vm_compute in Hp; injection Hp as <-; simpl; tauto.
  - intros x y [H|[H|[H|[]]]]; injection H as <- <-; reflexivity.
  - simpl. repeat constructor; simpl; intuition congruence.
  - reflexivity.
Qed.
End JoinLinksExample.

(* ---- the representation of the network's links by the per-structure tables is preserved by Structure.join ---- *)
Section JoinRepProof.
Variable K : cfield.

Lemma links_In (cs : list conn) (A B : lst K) x y :
  In (x, y) (links cs A B) <-> In x (l_pins A) /\ partner cs x = Some y /\ mem y (l_pins B) = true.
Proof.
  unfold links. rewrite in_flat_map. split.
  - intros [x' [HA Hin]]. destruct (partner cs x') as [y'|] eqn:Hp; [|destruct Hin].
    destruct (mem y' (l_pins B)) eqn:Hm; [|destruct Hin]. destruct Hin as [He|[]]. injection He as -> ->. auto.
  - intros [HA [Hp Hm]]. exists x. split; [exact HA|]. rewrite Hp, Hm. left. reflexivity.
Qed.

Theorem join_conn_src_rep (cs : list conn) (A B : lst K) cdA cdB structs :
  NoDup (map fst (cdA ++ cdB)) ->
  (forall x y, In (x, y) cdA <-> In x (l_pins A) /\ partner cs x = Some y) ->
  (forall x y, In (x, y) cdB <-> In x (l_pins B) /\ partner cs x = Some y) ->
  (forall x y, In (x, y) (cdA ++ cdB) -> idmem (fst x) structs = true) ->
  (forall x y, In (x, y) (cdA ++ cdB) -> idmem (fst y) structs = mem y (l_pins A ++ l_pins B)) ->
  (forall x y, In (x, y) cdA -> ~ In y (l_pins A)) ->
  (forall x y, In (x, y) cdB -> ~ In y (l_pins B)) ->
  (forall x y, partner cs x = Some y -> partner cs y = Some x) ->
  forall x y, In (x, y) (join_conn_src cdA cdB structs) <->
    In x (keep (map fst (links cs A B)) (l_pins A) ++ keep (map snd (links cs A B)) (l_pins B)) /\ partner cs x = Some y.
Proof.
  intros Hn RA RB Hsrc Htgt HnA HnB Hsym x y.
  rewrite (join_conn_src_is_filter cdA cdB structs Hn). rewrite filter_In. unfold crosses, keep. cbv beta.
  rewrite !in_app_iff, !filter_In.
  assert (Hxs : forall p, In p (map fst (links cs A B)) <-> exists q, In (p, q) (links cs A B)).
  { intros p. rewrite in_map_iff. split; [intros [[a b] [He Hin]]; simpl in He; subst; eauto | intros [q Hq]; exists (p, q); auto]. }
  assert (Hys : forall q, In q (map snd (links cs A B)) <-> exists p, In (p, q) (links cs A B)).
  { intros q. rewrite in_map_iff. split; [intros [[a b] [He Hin]]; simpl in He; subst; eauto | intros [p Hp]; exists (p, q); auto]. }
  split.
  - intros [Hin Hc]. assert (Hin0 : In (x, y) (cdA ++ cdB)) by (apply in_or_app; exact Hin).
    cbn [fst snd] in Hc. rewrite (Hsrc x y Hin0), (Htgt x y Hin0) in Hc. cbn [andb] in Hc.
    apply negb_true_iff in Hc. apply mem_nIn in Hc.
    assert (HyA : ~ In y (l_pins A)) by (intros H; apply Hc; apply in_or_app; left; exact H).
    assert (HyB : ~ In y (l_pins B)) by (intros H; apply Hc; apply in_or_app; right; exact H).
    destruct Hin as [Hin|Hin].
    + apply RA in Hin. destruct Hin as [HxA Hp]. split; [|exact Hp]. left. split; [exact HxA|].
      apply negb_true_iff. apply mem_nIn. intros Hx. apply Hxs in Hx. destruct Hx as [q Hq].
      apply links_In in Hq. destruct Hq as [_ [Hp' Hm]]. rewrite Hp in Hp'. injection Hp' as <-.
      apply mem_In in Hm. exact (HyB Hm).
    + apply RB in Hin. destruct Hin as [HxB Hp]. split; [|exact Hp]. right. split; [exact HxB|].
      apply negb_true_iff. apply mem_nIn. intros Hx. apply Hys in Hx. destruct Hx as [p Hq].
      apply links_In in Hq. destruct Hq as [HpA [Hp' _]]. apply Hsym in Hp'. rewrite Hp in Hp'. injection Hp' as <-.
      exact (HyA HpA).
  - intros [[[HxA Hk]|[HxB Hk]] Hp]; apply negb_true_iff in Hk; apply mem_nIn in Hk.
    + assert (Hin : In (x, y) cdA) by (apply RA; split; assumption).
      assert (Hin' : In (x, y) (cdA ++ cdB)) by (apply in_or_app; left; exact Hin).
      split; [left; exact Hin|]. cbn [fst snd]. rewrite (Hsrc x y Hin'), (Htgt x y Hin'). cbn [andb]. apply negb_true_iff. apply mem_nIn.
      intros Hy. apply in_app_or in Hy. destruct Hy as [Hy|Hy]; [exact (HnA x y Hin Hy)|].
      apply Hk. apply Hxs. exists y. apply links_In. split; [exact HxA|]. split; [exact Hp|]. apply mem_In. exact Hy.
    + assert (Hin : In (x, y) cdB) by (apply RB; split; assumption).
      assert (Hin' : In (x, y) (cdA ++ cdB)) by (apply in_or_app; right; exact Hin).
      split; [right; exact Hin|]. cbn [fst snd]. rewrite (Hsrc x y Hin'), (Htgt x y Hin'). cbn [andb]. apply negb_true_iff. apply mem_nIn.
      intros Hy. apply in_app_or in Hy. destruct Hy as [Hy|Hy]; [|exact (HnB x y Hin Hy)].
      apply Hk. apply Hys. exists y. apply links_In. split; [exact Hy|]. split; [apply Hsym; exact Hp|]. apply mem_In. exact HxB.
Qed.

End JoinRepProof.

Print Assumptions join_conn_src_rep.

(* the hypotheses of join_conn_src_rep are met by a concrete circuit (structures 1 and 2 with two links between them,
   one link each to the outside), and the merged table is the two outside links *)
From Lekkersim Require SolveComplete.
Section JoinRepExample.
Variable K : cfield.
Let cs : list conn := [((1, 0), (2, 1)); ((2, 0), (1, 2)); ((1, 1), (3, 0)); ((2, 2), (4, 0))]%nat.
Let A : lst K := {| l_pins := [(1, 0); (1, 1); (1, 2)]%nat; l_S := mzero |}.
Let B : lst K := {| l_pins := [(2, 0); (2, 1); (2, 2)]%nat; l_S := mzero |}.
Let cdA : list (spin * spin) := [((1, 2), (2, 0)); ((1, 0), (2, 1)); ((1, 1), (3, 0))]%nat.
Let cdB : list (spin * spin) := [((2, 0), (1, 2)); ((2, 1), (1, 0)); ((2, 2), (4, 0))]%nat.

Example join_conn_src_rep_hypotheses_satisfiable :
  NoDup (map fst (cdA ++ cdB)) /\
  (forall x y, In (x, y) cdA <-> In x (l_pins A) /\ partner cs x = Some y) /\
  (forall x y, In (x, y) cdB <-> In x (l_pins B) /\ partner cs x = Some y) /\
  (forall x y, In (x, y) (cdA ++ cdB) -> idmem (fst x) [1; 2]%nat = true) /\
  (forall x y, In (x, y) (cdA ++ cdB) -> idmem (fst y) [1; 2]%nat = mem y (l_pins A ++ l_pins B)) /\
  (forall x y, In (x, y) cdA -> ~ In y (l_pins A)) /\
  (forall x y, In (x, y) cdB -> ~ In y (l_pins B)) /\
  (forall x y, partner cs x = Some y -> partner cs y = Some x) /\
  join_conn_src cdA cdB [1; 2]%nat = [((1, 1), (3, 0)); ((2, 2), (4, 0))]%nat.
Proof.
  refine (conj _ (conj _ (conj _ (conj _ (conj _ (conj _ (conj _ (conj _ _)))))))).
  - simpl. repeat constructor; simpl; intuition congruence.
  - intros x y. split.
    + intros [H|[H|[H|[]]]]; injection H as <- <-; (split; [simpl; tauto | reflexivity]).
    + intros [[H|[H|[H|[]]]] Hp]; subst x; vm_compute in Hp; injection Hp as <-; simpl; tauto.
  - intros x y. split.
    + intros [H|[H|[H|[]]]]; injection H as <- <-; (split; [simpl; tauto | reflexivity]).
    + intros [[H|[H|[H|[]]]] Hp]; subst x; vm_compute in Hp; injection Hp as <-; simpl; tauto.
  - intros x y [H|[H|[H|[H|[H|[H|[]]]]]]]; injection H as <- <-; reflexivity.
  - intros x y [H|[H|[H|[H|[H|[H|[]]]]]]]; injection H as <- <-; reflexivity.
  - intros x y [H|[H|[H|[]]]]; injection H as <- <-; simpl; intuition congruence.
  - intros x y [H|[H|[H|[]]]]; injection H as <- <-; simpl; intuition congruence.
  - intros x y. apply SolveComplete.partner_sym. simpl. repeat constructor; simpl; intuition congruence.
  - reflexivity.
Qed.
End JoinRepExample.

(* ---- the leaf structures the merged structure stands for ---- *)
Definition leaves_of (a : nat) (sa : list nat) : list nat := match sa with [] => [a] | _ => sa end.

Lemma fold_snoc_app (l acc : list nat) : fold_left (fun l s => l ++ [s]) l acc = acc ++ l.
Proof.
  revert acc. induction l as [|x r IH]; intros acc; simpl; [rewrite app_nil_r; reflexivity|].
  rewrite IH, <- app_assoc. reflexivity.
Qed.

Theorem join_structs_src_is_leaves a b sa sb :
  join_structs_src a b sa sb = leaves_of a sa ++ leaves_of b sb.
Proof.
  unfold join_structs_src, leaves_of. rewrite !fold_snoc_app.
  destruct sa as [|x r]; destruct sb as [|y t]; reflexivity.
Qed.

Example join_structs_src_nonvacuous : join_structs_src 1 2 [] [5; 6]%nat = [1; 5; 6]%nat.
Proof. reflexivity. Qed.

Print Assumptions join_structs_src_is_leaves.
