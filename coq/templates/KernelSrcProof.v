(* templates/KernelSrcProof.v — fixed proof script appended to the definitions that
   harness/translate_kernel.py generates from /repo/lekkersim/scattering.py on every run.
   It shows, for every scalar field and all operands, that the translated source computes what the
   hand-written model Kernel.sadd / Kernel.int_complete computes (same rejections, same blocks up to
   the extensional equality the C18 theorems use).  Nothing here depends on the shape of the
   generated terms beyond what the tactics below can normalise; a source change that alters the
   formulas makes these proofs fail, which the C18 check reports. *)
Section KernelSrcProof.
Variable K : cfield.
Context {L : cfield_laws K}.

Definition res_rel {X : Type} (R : X -> X -> Prop) (r1 r2 : result X) : Prop :=
  match r1, r2 with
  | Ok x, Ok y => R x y
  | Err e1, Err e2 => e1 = e2
  | _, _ => False
  end.

Lemma madd_ext n m (A A' B B' : mx K) :
  meq n m A A' -> meq n m B B' -> meq n m (madd A B) (madd A' B').
Proof. intros HA HB i j Hi Hj. unfold madd. rewrite (HA i j Hi Hj), (HB i j Hi Hj). reflexivity. Qed.

Lemma msub_ext n m (A A' B B' : mx K) :
  meq n m A A' -> meq n m B B' -> meq n m (msub A B) (msub A' B').
Proof. intros HA HB i j Hi Hj. unfold msub. rewrite (HA i j Hi Hj), (HB i j Hi Hj). reflexivity. Qed.

Lemma vadd_ext n (u u' v v' : vec K) : veq n u u' -> veq n v v' -> veq n (vadd u v) (vadd u' v').
Proof. intros Hu Hv i Hi. unfold vadd. rewrite (Hu i Hi), (Hv i Hi). reflexivity. Qed.

Lemma tabv_veq n (v : vec K) : veq n (tabv n v) v.
Proof. intros i Hi. rewrite tabv_ok by exact Hi. reflexivity. Qed.

(* an empty product is the zero vector (the source special-cases len(u) = 0) *)
Lemma mv_zero_dim (A : mx K) (u : vec K) n : veq n (mv 0 A u) (@vzero K).
Proof. intros i _. reflexivity. Qed.

Ltac meq_auto :=
  lazymatch goal with
  | |- meq _ _ ?A ?A => apply (meq_refl K L)
  | |- meq _ _ (tab _ _ _) _ => eapply (meq_trans K L); [apply (tab_meq K L)|]; meq_auto
  | |- meq _ _ _ (tab _ _ _) => eapply (meq_trans K L); [|apply (meq_sym K L); apply (tab_meq K L)]; meq_auto
  | |- meq _ _ (madd _ _) (madd _ _) => apply madd_ext; meq_auto
  | |- meq _ _ (msub _ _) (msub _ _) => apply msub_ext; meq_auto
  | |- meq _ _ (mmul ?k _ _) (mmul ?k _ _) => eapply (mmul_ext K L _ k); meq_auto
  end.

Ltac veq_auto :=
  lazymatch goal with
  | |- veq _ ?A ?A => apply (veq_refl K L)
  | |- veq _ (tabv _ _) _ => eapply (veq_trans K L); [apply tabv_veq|]; veq_auto
  | |- veq _ _ (tabv _ _) => eapply (veq_trans K L); [|apply (veq_sym K L); apply tabv_veq]; veq_auto
  | |- veq _ (vadd _ _) (vadd _ _) => apply vadd_ext; veq_auto
  | |- veq _ (mv ?k _ _) (mv ?k _ _) => eapply (mv_ext K L k); [meq_auto | veq_auto]
  | |- veq _ (if Nat.eqb ?n 0 then _ else _) _ =>
      let E := fresh "E" in
      destruct (Nat.eqb_spec n 0) as [E|E];
      [ try rewrite E; eapply (veq_trans K L); [|apply (veq_sym K L); apply mv_zero_dim]; apply (veq_refl K L)
      | veq_auto ]
  end.

Theorem add_src_is_sadd (A B : smx K) : res_rel smx_eq (add_src K A B) (sadd A B).
Proof.
  unfold add_src, sadd, oinv, bind.
  destruct (negb (Nat.eqb (sM A) (sN B))); [reflexivity|].
  cbv zeta.
  repeat match goal with
         | |- context [cinv ?k ?E] => destruct (cinv k E)
         end; cbn [res_rel bind]; try reflexivity.
  unfold sadd_blocks, smx_eq; cbn [sN sM S11 S12 S21 S22].
  repeat split; meq_auto.
Qed.

(* on operands that can be joined (the only way int_complete is reached) *)
Theorem int_complete_src_is_model (A B : smx K) (u d : vec K) :
  res_rel (fun p q => veq (sM A) (fst p) (fst q) /\ veq (sM A) (snd p) (snd q))
          (int_complete_src K A B u d) (int_complete A B u d).
Proof.
  unfold int_complete_src, int_complete, oinv, bind.
  cbv zeta.
  repeat match goal with
         | |- context [cinv ?k ?E] => destruct (cinv k E)
         end; cbn [res_rel bind fst snd]; try reflexivity.
  split; veq_auto.
Qed.

End KernelSrcProof.

Print Assumptions add_src_is_sadd.
Print Assumptions int_complete_src_is_model.
