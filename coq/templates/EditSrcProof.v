(* templates/EditSrcProof.v — fixed proof script appended to the definitions that
   harness/translate_edit.py generates from /repo's CURRENT source of Solver.cut_structure and
   Solver.remove_structure.  For every solver state whose link table and exposure table have distinct keys
   (they are Python dicts) the loops of the source — over copies of the tables, popping / appending / removing
   in the live tables — compute exactly Wiring.cut_op / Wiring.remove_op, the functions the C07 invariants
   (tables_consistent, free_pins_exact, ...) and the C16 atomicity theorems are proved about. *)

(* ---------- generic facts about the loops ---------- *)
Lemma triple_fold {A B C I : Type} (stp : A * B * C -> I -> A * B * C)
      (fa : A -> I -> A) (fb : B -> I -> B) (fc : C -> I -> C) :
  (forall a b c it, stp (a, b, c) it = (fa a it, fb b it, fc c it)) ->
  forall l a b c, fold_left stp l (a, b, c) = (fold_left fa l a, fold_left fb l b, fold_left fc l c).
Proof. intros H. induction l as [|x r IH]; intros a b c; simpl; [reflexivity|]. rewrite H. apply IH. Qed.

Lemma pair_fold {A B I : Type} (stp : A * B -> I -> A * B) (fa : A -> I -> A) (fb : B -> I -> B) :
  (forall a b it, stp (a, b) it = (fa a it, fb b it)) ->
  forall l a b, fold_left stp l (a, b) = (fold_left fa l a, fold_left fb l b).
Proof. intros H. induction l as [|x r IH]; intros a b; simpl; [reflexivity|]. rewrite H. apply IH. Qed.

Section Loops.
Context {Key V : Type} (keqb : Key -> Key -> bool).
Hypothesis keqb_spec : forall a b, reflect (a = b) (keqb a b).

Lemma dpop_skip (k : Key) (v : V) : forall (pre r : list (Key * V)),
  ~ In k (map fst pre) -> dpop keqb k (pre ++ (k, v) :: r) = pre ++ r.
Proof.
  induction pre as [|[a b] p IH]; intros r H; simpl.
  - destruct (keqb_spec k k); [reflexivity | congruence].
  - destruct (keqb_spec a k) as [->|_]; [exfalso; apply H; left; reflexivity|].
    f_equal. apply IH. intros Hin. apply H. right. exact Hin.
Qed.

(* popping, from the live dictionary, every entry of a COPY that satisfies t *)
Lemma pop_loop (t : Key * V -> bool) (l : list (Key * V)) : forall pre,
  NoDup (map fst (pre ++ l)) ->
  fold_left (fun v it => if t it then dpop keqb (fst it) v else v) l (pre ++ l)
  = pre ++ filter (fun it => negb (t it)) l.
Proof.
  induction l as [|[k v] r IH]; intros pre H; simpl; [reflexivity|].
  assert (Hk : ~ In k (map fst pre)).
  { rewrite map_app in H. simpl in H. apply NoDup_remove_2 in H. intros Hin. apply H. apply in_or_app. left. exact Hin. }
  destruct (t (k, v)) eqn:E; simpl.
  - rewrite dpop_skip by exact Hk. apply IH.
    rewrite map_app in *. simpl in H. apply NoDup_remove_1 in H. exact H.
  - replace (pre ++ (k, v) :: r) with ((pre ++ [(k, v)]) ++ r) by (rewrite <- app_assoc; reflexivity).
    rewrite IH by (rewrite <- app_assoc; exact H). rewrite <- app_assoc. reflexivity.
Qed.
End Loops.

Lemma remove1_skip (x : spin) : forall pre r, ~ In x pre -> remove1 x (pre ++ x :: r) = pre ++ r.
Proof.
  induction pre as [|a p IH]; intros r H; simpl; [rewrite spin_eqb_refl; reflexivity|].
  destruct (spin_eqb_spec a x) as [->|_]; [exfalso; apply H; left; reflexivity|].
  f_equal. apply IH. intros Hin. apply H. right. exact Hin.
Qed.

(* removing, from the live list, every element of a COPY that satisfies p (no distinctness needed) *)
Lemma remove_loop (p : spin -> bool) (l : list spin) : forall pre,
  (forall x, In x pre -> p x = false) ->
  fold_left (fun v it => if p it then remove1 it v else v) l (pre ++ l) = pre ++ filter (fun x => negb (p x)) l.
Proof.
  induction l as [|x r IH]; intros pre H; simpl; [reflexivity|].
  destruct (p x) eqn:E; simpl.
  - rewrite remove1_skip; [apply IH; exact H|]. intros Hin. rewrite (H x Hin) in E. discriminate.
  - replace (pre ++ x :: r) with ((pre ++ [x]) ++ r) by (rewrite <- app_assoc; reflexivity).
    rewrite IH; [rewrite <- app_assoc; reflexivity|].
    intros y Hy. apply in_app_or in Hy. destruct Hy as [Hy|[<-|[]]]; [apply H; exact Hy | exact E].
Qed.

Lemma fold_ext {A I : Type} (F G : A -> I -> A) : (forall a it, F a it = G a it) ->
  forall l a, fold_left F l a = fold_left G l a.
Proof. intros H. induction l as [|x r IH]; intros a; simpl; [reflexivity|]. rewrite H. apply IH. Qed.

Lemma remove_loop0 (p : spin -> bool) (F : list spin -> spin -> list spin) (l : list spin) :
  (forall v it, F v it = if p it then remove1 it v else v) ->
  fold_left F l l = filter (fun x => negb (p x)) l.
Proof.
  intros H. rewrite (fold_ext F _ H). pose proof (remove_loop p l []) as P. cbn [app] in P. apply P. intros x [].
Qed.

Lemma pop_loop0 {Key V : Type} (keqb : Key -> Key -> bool) (spec : forall a b, reflect (a = b) (keqb a b))
      (t : Key * V -> bool) (F : list (Key * V) -> Key * V -> list (Key * V)) (l : list (Key * V)) :
  (forall v it, F v it = if t it then dpop keqb (fst it) v else v) -> NoDup (map fst l) ->
  fold_left F l l = filter (fun it => negb (t it)) l.
Proof.
  intros H Hn. rewrite (fold_ext F _ H). pose proof (pop_loop keqb spec t l []) as P. cbn [app] in P. apply P. exact Hn.
Qed.

Lemma append_loop (t : spin * spin -> bool) (l : list (spin * spin)) : forall fr : list spin,
  fold_left (fun v it => if t it then (v ++ [snd it]) ++ [fst it] else v) l fr
  = fr ++ flat_map (fun c => [snd c; fst c]) (filter t l).
Proof.
  induction l as [|c r IH]; intros fr; simpl; [rewrite app_nil_r; reflexivity|].
  destruct (t c); simpl; rewrite IH; [rewrite <- !app_assoc; reflexivity | reflexivity].
Qed.

Lemma cond_fold {A I : Type} (t : I -> bool) (g : A -> I -> A) (l : list I) : forall a,
  fold_left (fun v it => if t it then g v it else v) l a = fold_left g (filter t l) a.
Proof. induction l as [|x r IH]; intros a; simpl; [reflexivity|]. destruct (t x); simpl; apply IH. Qed.

Lemma remove1_comm (a b : spin) l : remove1 a (remove1 b l) = remove1 b (remove1 a l).
Proof.
  induction l as [|y r IH]; simpl; [reflexivity|].
  destruct (spin_eqb y b) eqn:Eb; destruct (spin_eqb y a) eqn:Ea; simpl; rewrite ?Eb, ?Ea; try reflexivity.
  - destruct (spin_eqb_spec y b); [|discriminate]. destruct (spin_eqb_spec y a); [|discriminate]. congruence.
  - f_equal. exact IH.
Qed.

Lemma nat_eqb_spec' : forall a b : nat, reflect (a = b) (Nat.eqb a b).
Proof. intros a b. apply Nat.eqb_spec. Qed.

(* the loop over the neighbours touches the structure store only *)
Lemma fn_fields f id ns : forall s s1 e, for_neighbours f id ns s = (s1, e) ->
  w_structs s1 = w_structs s /\ w_conns s1 = w_conns s /\ w_clist s1 = w_clist s /\
  w_free s1 = w_free s /\ w_map s1 = w_map s.
Proof.
  induction ns as [|n r IH]; intros s s1 e H; simpl in H.
  - injection H as <- _. repeat split.
  - destruct (f (getst s n) id) as [t'|e'].
    + destruct (IH _ _ _ H) as (A & B & C & D & E). cbn [setst w_structs w_conns w_clist w_free w_map] in *. repeat split; assumption.
    + injection H as <- _. repeat split.
Qed.

Theorem cut_src_is_cut_op (s : wstate) (id : nat) :
  NoDup (map fst (w_conns s)) -> NoDup (map fst (w_map s)) -> cut_src s id = cut_op s id.
Proof.
  intros Hc Hm. unfold cut_src, cut_op, detach_op.
  destruct (negb (nmem id (w_structs s))); [reflexivity|]. cbv zeta.
  destruct (for_neighbours cut_connections id _ _) as [s1 [e|]] eqn:E; [reflexivity|].
  destruct (fn_fields _ _ _ _ _ _ E) as (_ & Ec & _ & _ & Em). cbn [w_conns w_map] in Ec, Em.
  set (s2 := setst s1 id _).
  assert (Ec2 : w_conns s2 = w_conns s) by (unfold s2; cbn [setst w_conns]; exact Ec).
  assert (Em2 : w_map s2 = w_map s) by (unfold s2; cbn [setst w_map]; exact Em).
  erewrite (triple_fold _
              (fun v it => if conn_touches id it then dpop spin_eqb (fst it) v else v)
              (fun v it => if conn_touches id it then (v ++ [snd it]) ++ [fst it] else v)
              (fun v it => if conn_touches id it then remove1 (fst it) (remove1 (snd it) v) else v)).
  2:{ intros a b c it. cbn. destruct (conn_touches id it); reflexivity. }
  cbv beta iota zeta.
  erewrite (pop_loop0 spin_eqb spin_eqb_spec (conn_touches id)); [|intros v it; reflexivity | rewrite Ec2; exact Hc].
  rewrite append_loop. rewrite (cond_fold (conn_touches id)).
  erewrite (remove_loop0 (fun x => Nat.eqb (fst x) id)); [|intros v it; reflexivity].
  erewrite (pop_loop0 Nat.eqb nat_eqb_spec' (fun it : nat * spin => Nat.eqb (fst (snd it)) id));
    [|intros v it; reflexivity | rewrite Em2; exact Hm].
  reflexivity.
Qed.

Theorem remove_src_is_remove_op (s : wstate) (id : nat) :
  NoDup (map fst (w_conns s)) -> NoDup (map fst (w_map s)) -> remove_src s id = remove_op s id.
Proof.
  intros Hc Hm. unfold remove_src, remove_op, detach_op.
  destruct (negb (nmem id (w_structs s))); [reflexivity|]. cbv zeta.
  destruct (for_neighbours remove_connections id _ _) as [s1 [e|]] eqn:E; [reflexivity|].
  destruct (fn_fields _ _ _ _ _ _ E) as (_ & Ec & _ & _ & Em). cbn [w_conns w_map] in Ec, Em.
  set (s2 := setst s1 id _).
  assert (Ec2 : w_conns s2 = w_conns s) by (unfold s2; cbn [setst w_conns]; exact Ec).
  assert (Em2 : w_map s2 = w_map s) by (unfold s2; cbn [setst w_map]; exact Em).
  erewrite (pair_fold _
              (fun v it => if conn_touches id it then dpop spin_eqb (fst it) v else v)
              (fun v it => if conn_touches id it then remove1 (fst it) (remove1 (snd it) v) else v)).
  2:{ intros a b it. cbn. destruct (conn_touches id it); [rewrite remove1_comm|]; reflexivity. }
  cbv beta iota zeta.
  erewrite (pop_loop0 spin_eqb spin_eqb_spec (conn_touches id)); [|intros v it; reflexivity | rewrite Ec2; exact Hc].
  rewrite (cond_fold (conn_touches id)).
  erewrite (remove_loop0 (fun x => Nat.eqb (fst x) id)); [|intros v it; reflexivity].
  erewrite (pop_loop0 Nat.eqb nat_eqb_spec' (fun it : nat * spin => Nat.eqb (fst (snd it)) id));
    [|intros v it; reflexivity | rewrite Em2; exact Hm].
  reflexivity.
Qed.

Print Assumptions cut_src_is_cut_op.
Print Assumptions remove_src_is_remove_op.
