(* templates/SweepSrcProof.v — fixed proof script appended to the definitions that
   harness/translate_sweep.py generates from /repo's CURRENT source of Solver.solve (length
   normalisation and broadcast) and Model.solve (common length, per-point parameter dictionary).
   For ALL assignments with distinct names the translated bookkeeping IS Sweep.normalise /
   Sweep.sweep_solve, the definitions the C04 theorems are about.  The lemmas are stated for ANY step
   function that satisfies a pointwise specification, so the shape of the generated lambdas does not
   matter as long as they compute the same thing. *)
From Lekkersim Require Import ParamsProofs.
Close Scope Q_scope.

Definition skeys (d : sdict) : list nat := map fst d.
Definition deq (a b : dict) : Prop := forall k, pget k a = pget k b.
Definition keys (d : dict) : list nat := map fst d.

(* ---------- in-place rewriting of a dictionary of lists ---------- *)
Lemma sset_loop (g : nat * list val -> list val) (suf : sdict) : forall pre : sdict,
  NoDup (skeys (pre ++ suf)) ->
  fold_left (fun s (it : nat * list val) => sset (fst it) (g it) s) suf (pre ++ suf)
  = pre ++ map (fun kv => (fst kv, g kv)) suf.
Proof.
  induction suf as [|[k v] r IH]; intros pre H; simpl; [reflexivity|].
  assert (Hk : ~ In k (skeys pre)).
  { unfold skeys in H. rewrite map_app in H. simpl in H. apply NoDup_remove_2 in H.
    intros Hin. apply H. apply in_or_app. left. exact Hin. }
  assert (Hset : forall w, sset k w (pre ++ (k, v) :: r) = pre ++ (k, w) :: r).
  { intros w. clear -Hk. induction pre as [|[a b] p IHp]; simpl; [rewrite Nat.eqb_refl; reflexivity|].
    destruct (Nat.eqb_spec a k) as [->|_]; [exfalso; apply Hk; left; reflexivity|].
    f_equal. apply IHp. intros Hin. apply Hk. right. exact Hin. }
  rewrite Hset.
  replace (pre ++ (k, g (k, v)) :: r) with ((pre ++ [(k, g (k, v))]) ++ r) by (rewrite <- app_assoc; reflexivity).
  rewrite IH.
  - rewrite <- app_assoc. reflexivity.
  - unfold skeys in *. rewrite <- app_assoc. rewrite !map_app in *. simpl in *. exact H.
Qed.

Lemma map_pair_id (d : sdict) : map (fun kv : nat * list val => (fst kv, snd kv)) d = d.
Proof. induction d as [|[a b] r IH]; simpl; [reflexivity | rewrite IH; reflexivity]. Qed.

(* ---------- the common-length loop ---------- *)
Definition upd_ns (ns : nat) (l : list val) : nat :=
  if Nat.eqb (length l) 1 then ns else if Nat.eqb ns 1 then length l else ns.
Definition upd_err (ns : nat) (l : list val) : bool :=
  if Nat.eqb (length l) 1 then false else if Nat.eqb ns 1 then false else negb (Nat.eqb ns (length l)).
Fixpoint errs (l : sdict) (ns : nat) : bool :=
  match l with [] => false | it :: r => upd_err ns (snd it) || errs r (upd_ns ns (snd it)) end.
Definition lens (l : sdict) (ns : nat) : nat := fold_left (fun n (it : nat * list val) => upd_ns n (snd it)) l ns.

Lemma common_len_fold l : forall ns,
  common_len l ns = if errs l ns then Err EShape else Ok (lens l ns).
Proof.
  induction l as [|[k v] r IH]; intros ns; simpl; [reflexivity|].
  unfold lens in *. simpl. unfold upd_err, upd_ns.
  destruct (Nat.eqb (length v) 1); simpl; [apply IH|].
  destruct (Nat.eqb ns 1); simpl; [apply IH|].
  destruct (Nat.eqb ns (length v)); simpl; [apply IH | reflexivity].
Qed.

Lemma loop1_spec (stp : sdict * nat * bool -> nat * list val -> sdict * nat * bool) :
  (forall pd ns e it, stp (pd, ns, e) it
     = (sset (fst it) (snd it) pd, upd_ns ns (snd it), e || upd_err ns (snd it))) ->
  forall l pd ns e,
    fold_left stp l (pd, ns, e)
    = (fold_left (fun s (it : nat * list val) => sset (fst it) (snd it) s) l pd, lens l ns, e || errs l ns).
Proof.
  intros H. induction l as [|it r IH]; intros pd ns e; simpl.
  - rewrite orb_false_r. reflexivity.
  - rewrite H, IH. unfold lens. simpl. rewrite orb_assoc. reflexivity.
Qed.

Lemma loop2_spec (g : nat * list val -> list val) (stp : sdict * bool -> nat * list val -> sdict * bool) :
  (forall pd e it, stp (pd, e) it = (sset (fst it) (g it) pd, e)) ->
  forall l pd e,
    fold_left stp l (pd, e) = (fold_left (fun s (it : nat * list val) => sset (fst it) (g it) s) l pd, e).
Proof.
  intros H. induction l as [|it r IH]; intros pd e; simpl; [reflexivity|]. rewrite H, IH. reflexivity.
Qed.

Ltac pointwise :=
  intros; unfold upd_ns, upd_err; cbn;
  repeat match goal with |- context [Nat.eqb ?a ?b] => destruct (Nat.eqb a b) end;
  cbn; rewrite ?orb_false_r, ?orb_true_r; try reflexivity;
  repeat match goal with e : bool |- _ => destruct e end; reflexivity.

Section SweepSrcProof.
Context {A : Type}.
Variable f : dict -> A.

Theorem solver_normalise_src_is_normalise (d : sdict) :
  NoDup (skeys d) -> solver_normalise_src d = normalise d.
Proof.
  intros H. unfold solver_normalise_src.
  erewrite loop1_spec.
  2:{ pointwise. }
  pose proof (sset_loop (fun it => snd it) d [] H) as E1. cbn [app] in E1. rewrite E1, map_pair_id.
  cbv beta iota zeta.
  erewrite (loop2_spec (fun it => bcast (lens d 1) (snd it))).
  2:{ intros pd e it. unfold bcast. cbn. rewrite orb_false_r. reflexivity. }
  pose proof (sset_loop (fun it => bcast (lens d 1) (snd it)) d [] H) as E2. cbn [app] in E2. rewrite E2.
  cbv beta iota zeta. unfold normalise. rewrite common_len_fold. simpl.
  destruct (errs d 1); reflexivity.
Qed.

(* ---------- Model.solve: the dictionary create_S sees at every point ---------- *)
Definition pick (i : nat) (l : list val) : val := if Nat.eqb (length l) 1 then hd 0%Q l else nth i l 0%Q.
Definition pt (i : nat) (d : sdict) : dict := map (fun kv => (fst kv, pick i (snd kv))) d.

Lemma inner_spec (i : nat) (stp : dict * bool -> nat * list val -> dict * bool) :
  (forall up e it, stp (up, e) it = (pset (fst it) (pick i (snd it)) up, e)) ->
  forall l up e, fold_left stp l (up, e) = (pupdate up (pt i l), e).
Proof.
  intros H. unfold pupdate, pt. induction l as [|it r IH]; intros up e; simpl; [reflexivity|].
  rewrite H, IH. reflexivity.
Qed.

Lemma outer_spec (d : sdict) (stp : dict * dict * list A * bool -> nat -> dict * dict * list A * bool) :
  (forall up pd acc e i, stp (up, pd, acc, e) i
     = (pupdate up (pt i d), pupdate pd (pupdate up (pt i d)), acc ++ [f (pupdate pd (pupdate up (pt i d)))], e)) ->
  forall l up pd acc e,
    snd (fold_left stp l (up, pd, acc, e)) = e /\
    snd (fst (fold_left stp l (up, pd, acc, e)))
    = acc ++ snd (fold_left (fun (st : dict * dict * list A) i =>
                     let up' := pupdate (fst (fst st)) (pt i d) in
                     let pd' := pupdate (snd (fst st)) up' in
                     (up', pd', snd st ++ [f pd'])) l (up, pd, [])).
Proof.
  intros H. induction l as [|i r IH]; intros up pd acc e; simpl.
  - rewrite app_nil_r. split; reflexivity.
  - rewrite H. destruct (IH (pupdate up (pt i d)) (pupdate pd (pupdate up (pt i d)))
                            (acc ++ [f (pupdate pd (pupdate up (pt i d)))]) e) as [He Ha].
    split; [exact He|]. rewrite Ha.
    destruct (IH (pupdate up (pt i d)) (pupdate pd (pupdate up (pt i d)))
                 [f (pupdate pd (pupdate up (pt i d)))] e) as [_ Hb].
    (* re-associate: the accumulator only ever grows on the right *)
    clear IH Ha He.
    assert (G : forall l0 u p a0,
              snd (fold_left (fun (st : dict * dict * list A) i0 =>
                     let up' := pupdate (fst (fst st)) (pt i0 d) in
                     let pd' := pupdate (snd (fst st)) up' in
                     (up', pd', snd st ++ [f pd'])) l0 (u, p, a0))
              = a0 ++ snd (fold_left (fun (st : dict * dict * list A) i0 =>
                     let up' := pupdate (fst (fst st)) (pt i0 d) in
                     let pd' := pupdate (snd (fst st)) up' in
                     (up', pd', snd st ++ [f pd'])) l0 (u, p, []))).
    { induction l0 as [|j l0 IHl]; intros u p a0; simpl; [rewrite app_nil_r; reflexivity|].
      rewrite IHl. rewrite (IHl _ _ [f _]). rewrite app_assoc. reflexivity. }
    rewrite (G r _ _ [f _]). rewrite <- app_assoc. reflexivity.
Qed.

(* keys of a point are the names of the assignment *)
Lemma pget_pt_notin i d k : ~ In k (skeys d) -> pget k (pt i d) = None.
Proof.
  unfold pt, skeys. induction d as [|[a b] r IH]; simpl; intros H; [reflexivity|].
  destruct (Nat.eqb_spec a k) as [->|_]; [exfalso; apply H; left; reflexivity|].
  apply IH. intros Hin. apply H. right. exact Hin.
Qed.
Lemma pget_pt_in i d k : In k (skeys d) -> pget k (pt i d) <> None.
Proof.
  unfold pt, skeys. induction d as [|[a b] r IH]; simpl; intros H; [destruct H|].
  destruct (Nat.eqb_spec a k) as [->|Hne]; [discriminate|].
  apply IH. destruct H as [E|H]; [congruence | exact H].
Qed.
Lemma pt_keys i d : map fst (pt i d) = skeys d.
Proof. unfold pt, skeys. rewrite map_map. reflexivity. Qed.

Hypothesis f_ext : forall a b, deq a b -> f a = f b.

Lemma finish4 {X Y : Type} (t : X * Y * list A * bool) (e0 : bool) (acc0 : list A) :
  snd t = e0 -> snd (fst t) = acc0 ->
  (let '(_, _, c, d) := t in if d then Err EShape else Ok c) = (if e0 then Err EShape else Ok acc0 : result (list A)).
Proof. destruct t as [[[a b] c] d]; simpl; intros <- <-; reflexivity. Qed.

Lemma pset_keys_nodup k v (d : dict) : NoDup (keys d) -> NoDup (keys (pset k v d)).
Proof.
  induction d as [|[a b] r IH]; simpl; intros H; [constructor; [intros []|constructor]|].
  inversion H as [|? ? Ha Hr]; subst.
  destruct (Nat.eqb_spec a k) as [->|Hne]; simpl; [constructor; assumption|].
  constructor; [|apply IH; exact Hr].
  intros Hin. apply Ha. clear -Hin Hne.
  induction r as [|[c e] r IH]; simpl in *.
  - destruct Hin as [E|[]]. congruence.
  - destruct (Nat.eqb_spec c k) as [->|Hck]; simpl in Hin.
    + destruct Hin as [E|Hin]; [congruence | right; exact Hin].
    + destruct Hin as [E|Hin]; [left; exact E | right; apply IH; exact Hin].
Qed.

Lemma pupdate_nodup (d d' : dict) : NoDup (keys d) -> NoDup (keys (pupdate d d')).
Proof.
  unfold pupdate. revert d. induction d' as [|[k v] r IH]; intros d H; simpl; [exact H|].
  apply IH. apply pset_keys_nodup. exact H.
Qed.

Lemma pick_bcast i ns l : (i < ns)%nat -> nth i (bcast ns l) 0%Q = pick i l.
Proof.
  intros Hi. unfold bcast, pick. destruct (Nat.eqb (length l) 1); [|reflexivity].
  revert i Hi. induction ns as [|n IH]; intros i Hi; [lia|]. destruct i; simpl; [reflexivity | apply IH; lia].
Qed.

Lemma point_is_pt i ns (d : sdict) : (i < ns)%nat ->
  point i (map (fun kv : nat * list val => (fst kv, bcast ns (snd kv))) d) = pt i d.
Proof.
  intros Hi. unfold point, pt. rewrite map_map. apply map_ext. intros [k l]. simpl.
  rewrite pick_bcast by exact Hi. reflexivity.
Qed.

Section Points.
Variables (defaults : dict) (kargs : sdict).
Hypothesis Hk : NoDup (skeys kargs).

Definition I1 (up : dict) : Prop := NoDup (keys up) /\ forall k, ~ In k (skeys kargs) -> pget k up = None.
Definition I2 (pd : dict) : Prop := forall k, ~ In k (skeys kargs) -> pget k pd = pget k defaults.

Lemma pget_rev_pt i k : pget k (rev (pt i kargs)) = pget k (pt i kargs).
Proof. apply pget_rev. rewrite pt_keys. exact Hk. Qed.

Lemma up_step i up : I1 up ->
  I1 (pupdate up (pt i kargs)) /\ forall k, pget k (pupdate up (pt i kargs)) = pget k (pt i kargs).
Proof.
  intros [Hn Hout].
  assert (G : forall k, pget k (pupdate up (pt i kargs)) = pget k (pt i kargs)).
  { intros k. rewrite pget_pupdate, pget_rev_pt.
    destruct (pget k (pt i kargs)) eqn:E; [reflexivity|].
    apply Hout. intros Hin. apply (pget_pt_in i kargs k Hin). exact E. }
  split; [|exact G]. split; [apply pupdate_nodup; exact Hn|].
  intros k Hk'. rewrite G. apply pget_pt_notin. exact Hk'.
Qed.

Lemma pd_step i up pd : I1 up -> I2 pd ->
  I2 (pupdate pd (pupdate up (pt i kargs))) /\
  deq (pupdate pd (pupdate up (pt i kargs))) (pupdate defaults (pt i kargs)).
Proof.
  intros H1 H2. destruct (up_step i up H1) as [[Hn' Hout'] G].
  assert (P : forall k, pget k (pupdate pd (pupdate up (pt i kargs)))
                        = match pget k (pt i kargs) with Some v => Some v | None => pget k pd end).
  { intros k. rewrite pget_pupdate. rewrite (pget_rev k _ Hn'), G. reflexivity. }
  split.
  - intros k Hk'. rewrite P, (pget_pt_notin i kargs k Hk'). apply H2. exact Hk'.
  - intros k. rewrite P, pget_pupdate, pget_rev_pt.
    destruct (pget k (pt i kargs)) eqn:E; [reflexivity|].
    apply H2. intros Hin. apply (pget_pt_in i kargs k Hin). exact E.
Qed.

Lemma points_spec ns : forall l up pd, I1 up -> I2 pd -> Forall (fun i => i < ns)%nat l ->
  snd (fold_left (fun (st : dict * dict * list A) i =>
         let up' := pupdate (fst (fst st)) (pt i kargs) in
         let pd' := pupdate (snd (fst st)) up' in
         (up', pd', snd st ++ [f pd'])) l (up, pd, []))
  = map (fun k0 => f (pupdate defaults
           (point k0 (map (fun kv : nat * list val => (fst kv, bcast ns (snd kv))) kargs)))) l.
Proof.
  set (F := fun (st : dict * dict * list A) i =>
         let up' := pupdate (fst (fst st)) (pt i kargs) in
         let pd' := pupdate (snd (fst st)) up' in
         (up', pd', snd st ++ [f pd'])).
  assert (S1 : forall l0 u0 p0 a0, snd (fold_left F l0 (u0, p0, a0)) = a0 ++ snd (fold_left F l0 (u0, p0, []))).
  { induction l0 as [|j l0 IHl]; intros u0 p0 a0; cbn [fold_left]; [rewrite app_nil_r; reflexivity|].
    unfold F at 2 4. cbn [fst snd]. rewrite IHl. rewrite (IHl _ _ ([] ++ _)). cbn [app].
    rewrite <- app_assoc. reflexivity. }
  induction l as [|i r IH]; intros up pd H1 H2 Hl; [reflexivity|].
  cbn [fold_left map]. unfold F at 2. cbn [fst snd app].
  inversion Hl as [|? ? Hi Hr]; subst.
  rewrite S1. cbn [app].
  destruct (up_step i up H1) as [H1' _]. destruct (pd_step i up pd H1 H2) as [H2' Hdeq].
  f_equal.
  - rewrite (point_is_pt i ns kargs Hi). apply f_ext. exact Hdeq.
  - apply IH; assumption.
Qed.
End Points.

Theorem model_sweep_src_is_sweep_solve (defaults : dict) (kargs : sdict) :
  NoDup (skeys kargs) -> NoDup (keys defaults) ->
  model_sweep_src f defaults kargs = sweep_solve (fun p => f (pupdate defaults p)) kargs.
Proof.
  intros Hk Hd. unfold model_sweep_src.
  erewrite loop1_spec.
  2:{ pointwise. }
  pose proof (sset_loop (fun it => snd it) kargs [] Hk) as E1. cbn [app] in E1. rewrite E1, map_pair_id.
  cbv beta iota zeta.
  match goal with
  | |- context [fold_left ?stp (seq 0 ?n) ?init] => pose proof (outer_spec kargs stp) as OS
  end.
  match type of OS with ?P -> _ => assert (HP : P) end.
  { intros up pd acc e i. cbn.
    erewrite (inner_spec i).
    2:{ intros up0 e0 it. unfold pick. cbn. rewrite orb_false_r. reflexivity. }
    cbn. rewrite orb_false_r. reflexivity. }
  match goal with
  | |- context [fold_left ?stp (seq 0 ?n) (?u0, ?p0, ?a0, ?e0)] =>
      destruct (OS HP (seq 0 n) u0 p0 a0 e0) as [OSe OSa]
  end.
  etransitivity; [apply (finish4 _ _ _ OSe OSa)|]. cbn [orb app].
  unfold sweep_solve, normalise. rewrite common_len_fold.
  destruct (errs kargs 1) eqn:Eerr; [reflexivity|]. cbn [bind fst snd]. f_equal.
  apply (points_spec defaults kargs Hk (lens kargs 1)).
  - split; [constructor | reflexivity].
  - intros k _. unfold dnil. rewrite pget_pupdate, (pget_rev k defaults Hd). simpl. destruct (pget k defaults); reflexivity.
  - apply Forall_forall. intros i Hi. apply in_seq in Hi. lia.
Qed.

End SweepSrcProof.

Print Assumptions solver_normalise_src_is_normalise.
Print Assumptions model_sweep_src_is_sweep_solve.
