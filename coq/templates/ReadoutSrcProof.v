(* templates/ReadoutSrcProof.v — fixed proof script appended to the definitions that harness/translate_readout.py
   generates from /repo's CURRENT source of Model.get_A / get_T / get_PH / get_output and SolvedModel.get_full_output /
   get_data / get_full_data (and the block building the parameter columns).  Stated for every model, every excitation
   naming distinct pins of the model (the inputs the code accepts: `l1.remove(pin)` raises otherwise), every sweep. *)
Theorem get_A_src_is_get_A m p q : get_A_src m p q = get_A m p q.
Proof. reflexivity. Qed.
Theorem get_T_src_is_get_T m p q : get_T_src m p q = get_T m p q.
Proof. reflexivity. Qed.
Theorem get_PH_arg_src_is_get_A m p q : get_PH_arg_src m p q = get_A m p q.
Proof. reflexivity. Qed.

Lemma remove1_In x p l : In p (remove1 x l) -> In p l.
Proof.
  induction l as [|y r IH]; simpl; [tauto|]. destruct (spin_eqb y x); simpl; intros H; [right; exact H|].
  destruct H as [H|H]; [left; exact H | right; apply IH; exact H].
Qed.
Lemma remove1_NoDup x l : NoDup l -> NoDup (remove1 x l) /\ ~ In x (remove1 x l).
Proof.
  induction l as [|y r IH]; simpl; intros Hn; [split; [constructor | tauto]|].
  inversion Hn as [|? ? Hy Hr]; subst.
  destruct (spin_eqb_spec y x) as [->|Hne]; [split; assumption|].
  destruct (IH Hr) as [A B]. split.
  - constructor; [intros Hin; apply Hy; apply (remove1_In x); exact Hin | exact A].
  - simpl. intros [H|H]; [apply Hne; exact H | apply B; exact H].
Qed.
Lemma rem_fold (stp : list spin -> spin -> list spin) :
  (forall l p, stp l p = remove1 p l) ->
  forall ks l p, NoDup l -> In p (fold_left stp ks l) -> In p l /\ ~ In p ks.
Proof.
  intros Hs. induction ks as [|k r IH]; simpl; intros l p Hn H; [tauto|].
  rewrite Hs in H. destruct (remove1_NoDup k l Hn) as [A B].
  destruct (IH _ _ A H) as [C D]. split; [apply (remove1_In k); exact C|].
  intros [E|E]; [subst k; apply B; exact C | apply D; exact E].
Qed.

Lemma dgetd_dset k v d p : dgetd (dset spin_eqb k v d) p = if spin_eqb k p then v else dgetd d p.
Proof.
  unfold dgetd. induction d as [|[a b] r IH]; simpl.
  - destruct (spin_eqb k p); reflexivity.
  - destruct (spin_eqb_spec a k) as [->|Hak]; simpl.
    + destruct (spin_eqb k p); reflexivity.
    + destruct (spin_eqb_spec a p) as [->|Hap].
      * destruct (spin_eqb_spec k p) as [->|_]; [congruence | reflexivity].
      * exact IH.
Qed.
Lemma zero_fold (stp : list (spin * K) -> spin -> list (spin * K)) :
  (forall d p, stp d p = dset spin_eqb p 0 d) ->
  forall l d p, dgetd (fold_left stp l d) p = if mem p l then 0 else dgetd d p.
Proof.
  intros Hs. induction l as [|a r IH]; simpl; intros d p; [reflexivity|].
  rewrite IH, Hs, dgetd_dset. destruct (spin_eqb a p), (mem p r); reflexivity.
Qed.

Lemma uvec_fold (idx : spin -> nat) (g : spin -> K) (stp : vec K -> spin -> vec K) :
  (forall v p, stp v p = vupd v (idx p) (g p)) ->
  forall l v, (forall p q, In p l -> In q l -> idx p = idx q -> p = q) ->
  forall i, fold_left stp l v i = match find (fun p => Nat.eqb (idx p) i) l with Some p => g p | None => v i end.
Proof.
  intros Hs. induction l as [|a r IH]; simpl; intros v Hinj i; [reflexivity|].
  rewrite IH by (intros p q Hp Hq; apply Hinj; right; assumption). rewrite Hs.
  destruct (Nat.eqb_spec (idx a) i) as [E|E].
  - destruct (find (fun p => Nat.eqb (idx p) i) r) as [p|] eqn:F.
    + apply find_some in F. destruct F as [Fi Fe]. apply Nat.eqb_eq in Fe.
      rewrite (Hinj p a); [reflexivity | right; exact Fi | left; reflexivity | congruence].
    + unfold vupd. rewrite <- E, Nat.eqb_refl. reflexivity.
  - destruct (find (fun p => Nat.eqb (idx p) i) r) as [p|]; [reflexivity|].
    unfold vupd. destruct (Nat.eqb_spec i (idx a)); [congruence | reflexivity].
Qed.

Definition rd_wf (pins : list spin) (idx : spin -> nat) (u : list (spin * K)) : Prop :=
  NoDup pins /\ (forall p q, In p pins -> In q pins -> idx p = idx q -> p = q) /\
  NoDup (map fst u) /\ incl (map fst u) pins.

Lemma exc_at_pin pins idx n S (u : list (spin * K)) p :
  (forall p q, In p pins -> In q pins -> idx p = idx q -> p = q) -> incl (map fst u) pins -> In p pins ->
  exc_vec (pt pins idx n S) u (idx p) = dgetd u p.
Proof.
  intros Hinj Hin Hp. unfold exc_vec, dgetd. cbn [sm_idx pt].
  induction u as [|[k v] r IH]; simpl; [reflexivity|].
  assert (Hk : In k pins) by (apply Hin; left; reflexivity).
  destruct (Nat.eqb_spec (idx k) (idx p)) as [E|E].
  - rewrite (Hinj k p Hk Hp E), spin_eqb_refl. reflexivity.
  - destruct (spin_eqb_spec k p) as [->|_]; [congruence|].
    apply IH. intros x Hx. apply Hin. right. exact Hx.
Qed.
Lemma exc_off_pins pins idx n S (u : list (spin * K)) i :
  incl (map fst u) pins -> (forall p, In p pins -> idx p <> i) -> exc_vec (pt pins idx n S) u i = 0.
Proof.
  intros Hin Hno. unfold exc_vec. cbn [sm_idx pt].
  induction u as [|[k v] r IH]; simpl; [reflexivity|].
  destruct (Nat.eqb_spec (idx k) i) as [E|_]; [exfalso; apply (Hno k); [apply Hin; left; reflexivity | exact E]|].
  apply IH. intros x Hx. apply Hin. right. exact Hx.
Qed.

(* the excitation vector the source builds is the model's, at every index *)
Lemma uvec_src_is_exc pins idx n S u
    (s1 : list spin -> spin -> list spin) (s2 : list (spin * K) -> spin -> list (spin * K)) (s3 : vec K -> spin -> vec K) d2 :
  (forall l p, s1 l p = remove1 p l) -> (forall d p, s2 d p = dset spin_eqb p 0 d) ->
  d2 = fold_left s2 (fold_left s1 (map fst u) pins) u ->
  (forall v p, s3 v p = vupd v (idx p) (dgetd d2 p)) ->
  rd_wf pins idx u ->
  forall i, fold_left s3 pins (fun _ => 0) i = exc_vec (pt pins idx n S) u i.
Proof.
  intros H1 H2 Hd H3 (Hn & Hinj & Hnu & Hin) i.
  rewrite (uvec_fold idx (dgetd d2) s3 H3 pins _ Hinj).
  destruct (find (fun p => Nat.eqb (idx p) i) pins) as [p|] eqn:F.
  - apply find_some in F. destruct F as [Fi Fe]. apply Nat.eqb_eq in Fe. subst i.
    rewrite (exc_at_pin pins idx n S u p Hinj Hin Fi). subst d2. rewrite (zero_fold s2 H2).
    destruct (mem p (fold_left s1 (map fst u) pins)) eqn:M; [|reflexivity].
    apply mem_In in M. destruct (rem_fold s1 H1 _ _ _ Hn M) as [_ Hk].
    unfold dgetd. destruct (dget spin_eqb p u) as [x|] eqn:G; [|reflexivity].
    exfalso. apply Hk. clear - G. induction u as [|[k v] r IH]; simpl in *; [discriminate|].
    destruct (spin_eqb_spec k p) as [->|_]; [left; reflexivity | right; apply IH; exact G].
  - symmetry. apply exc_off_pins; [exact Hin|]. intros p Hp E.
    apply (find_none _ _ F) in Hp. apply Nat.eqb_neq in Hp. apply Hp. exact E.
Qed.

Lemma mv_pointwise n (S : mx K) (a b : vec K) : (forall i, a i = b i) -> forall j, mv n S a j == mv n S b j.
Proof. intros H j. unfold mv. apply (bigsum_ext K KL). intros l _. rewrite H. reflexivity. Qed.

Lemma Forall2_map_same {A B} (R : B -> B -> Prop) (f g : A -> B) l :
  (forall x, In x l -> R (f x) (g x)) -> Forall2 R (map f l) (map g l).
Proof.
  induction l as [|a r IH]; simpl; intros H; constructor; [apply H; left; reflexivity|].
  apply IH. intros x Hx. apply H. right. exact Hx.
Qed.

Lemma Forall2_map_l {A B} (R : B -> A -> Prop) (f : A -> B) l :
  (forall x, In x l -> R (f x) x) -> Forall2 R (map f l) l.
Proof.
  induction l as [|a r IH]; simpl; intros H; constructor; [apply H; left; reflexivity|].
  apply IH. intros x Hx. apply H. right. exact Hx.
Qed.

Definition entry_eq (a b : spin * K) : Prop := fst a = fst b /\ snd a == snd b.

Theorem get_output_src_is_get_output (m : smodel K) u (power : bool) :
  rd_wf (sm_pins m) (sm_idx m) u ->
  Forall2 entry_eq (get_output_src m u power) (if power then get_output_power m u else get_output m u).
Proof.
  intros W. destruct m as [pins idx n S]. cbn [sm_pins sm_idx] in W.
  assert (E : forall j, mv n S (fold_left (fun v pin => vupd v (idx pin)
               (dgetd (fold_left (fun d pin => dset spin_eqb pin 0 d)
                   (fold_left (fun l pin => remove1 pin l) (map fst u) pins) u) pin)) pins (fun _ => 0)) j
             == mv n S (exc_vec (pt pins idx n S) u) j).
  { apply mv_pointwise. intros i.
    eapply (uvec_src_is_exc pins idx n S u (fun l pin => remove1 pin l) (fun d pin => dset spin_eqb pin 0 d));
      [reflexivity | reflexivity | reflexivity | reflexivity | exact W]. }
  unfold get_output_src, get_output_power, get_output. cbn [sm_pins sm_idx sm_n sm_S]. cbv zeta.
  destruct power.
  - rewrite map_map. apply Forall2_map_same. intros p _. split; [reflexivity|]. cbn [fst snd].
    unfold sqmod. rewrite (E (idx p)). reflexivity.
  - apply Forall2_map_same. intros p _. split; [reflexivity|]. cbn [snd]. apply E.
Qed.

(* the sweep table: the column of pin p holds, at row k, what get_output reports for p at point k *)
Theorem get_full_output_src_is_model pins idx n (Ss : list (mx K)) u (power : bool) :
  rd_wf pins idx u ->
  Forall2 (fun col p => fst col = p /\
             Forall2 (fun x S => x == (if power then sqmod (mv n S (exc_vec (pt pins idx n S) u) (idx p))
                                       else mv n S (exc_vec (pt pins idx n S) u) (idx p))) (snd col) Ss)
          (get_full_output_src pins idx n Ss u power) pins.
Proof.
  intros W. unfold get_full_output_src. cbv zeta.
  apply Forall2_map_l. intros p _. cbn [fst snd]. split; [reflexivity|].
  rewrite map_map. apply Forall2_map_l. intros S _.
  assert (E : forall j, mv n S (fold_left (fun v pin => vupd v (idx pin)
               (dgetd (fold_left (fun d pin => dset spin_eqb pin 0 d)
                   (fold_left (fun l pin => remove1 pin l) (map fst u) pins) u) pin)) pins (fun _ => 0)) j
             == mv n S (exc_vec (pt pins idx n S) u) j).
  { apply mv_pointwise. intros i.
    eapply (uvec_src_is_exc pins idx n S u (fun l pin => remove1 pin l) (fun d pin => dset spin_eqb pin 0 d));
      [reflexivity | reflexivity | reflexivity | reflexivity | exact W]. }
  destruct power; [unfold sqmod; rewrite (E (idx p)); reflexivity | apply E].
Qed.

(* get_data: the T and Amplitude columns are the model's table; dB and Phase are taken of the same entry *)
Theorem get_data_src_is_data_table pins idx n (Ss : list (mx K)) p q :
  let '(cT, cdB, cPh, cA) := get_data_src pins idx n Ss p q in
  combine cT cA = data_table (map (pt pins idx n) Ss) p q /\ cdB = cA /\ cPh = cA.
Proof.
  unfold get_data_src, data_table. cbv zeta. split; [|split; reflexivity].
  rewrite map_map. induction Ss as [|S r IH]; simpl; [reflexivity|]. rewrite IH. reflexivity.
Qed.

(* parameter columns: every parameter of the solve becomes a column of ns rows, row k = its value at point k *)
Definition col_of (ns : nat) (v : list K) : list K :=
  if Nat.eqb (List.length v) 1 then map (fun _ => hd 0 v) (seq 0 ns) else v.
Lemma dset_absent_n (k : nat) (v : list K) (d : list (nat * list K)) :
  ~ In k (map fst d) -> dset Nat.eqb k v d = d ++ [(k, v)].
Proof.
  induction d as [|[a b] r IH]; simpl; intros H; [reflexivity|].
  destruct (Nat.eqb_spec a k) as [->|_]; [exfalso; apply H; left; reflexivity|].
  f_equal. apply IH. intros Hin. apply H. right. exact Hin.
Qed.
Lemma param_loop ns (stp : option (list (nat * list K)) -> nat * list K -> option (list (nat * list K))) :
  (forall acc nv, stp acc nv = match acc with
     | None => None
     | Some ps =>
         if Nat.eqb (List.length (snd nv)) 1 then Some (dset Nat.eqb (fst nv) (map (fun _ => hd 0 (snd nv)) (seq 0 ns)) ps)
         else if Nat.eqb (List.length (snd nv)) ns then Some (dset Nat.eqb (fst nv) (snd nv) ps)
         else None end) ->
  forall sp pre, NoDup (map fst pre ++ map fst sp) ->
    Forall (fun nv => List.length (snd nv) = 1%nat \/ List.length (snd nv) = ns) sp ->
    fold_left stp sp (Some pre) = Some (pre ++ map (fun nv => (fst nv, col_of ns (snd nv))) sp).
Proof.
  intros Hs. induction sp as [|[k v] r IH]; intros pre Hn Hf; simpl; [rewrite app_nil_r; reflexivity|].
  inversion Hf as [|? ? Hk Hr]; subst. cbn [snd] in Hk.
  assert (Hnk : ~ In k (map fst pre)).
  { simpl in Hn. apply NoDup_remove_2 in Hn. intros Hin. apply Hn. apply in_or_app. left. exact Hin. }
  assert (Hn' : NoDup (map fst (pre ++ [(k, col_of ns v)]) ++ map fst r)).
  { rewrite map_app, <- app_assoc. exact Hn. }
  rewrite Hs. cbn [fst snd]. unfold col_of in *.
  destruct (Nat.eqb_spec (List.length v) 1) as [E1|E1].
  - rewrite dset_absent_n by exact Hnk. rewrite IH; [rewrite <- app_assoc; reflexivity | | exact Hr].
    destruct (Nat.eqb (List.length v) 1) eqn:E; [exact Hn' | apply Nat.eqb_neq in E; congruence].
  - destruct Hk as [Hk|Hk]; [congruence|]. rewrite <- Hk at 1. rewrite Nat.eqb_refl.
    rewrite dset_absent_n by exact Hnk. rewrite IH; [rewrite <- app_assoc; reflexivity | | exact Hr].
    destruct (Nat.eqb (List.length v) 1) eqn:E; [apply Nat.eqb_eq in E; congruence | exact Hn'].
Qed.

Theorem param_columns_src_spec ns sp :
  NoDup (map fst sp) -> Forall (fun nv => List.length (snd nv) = 1%nat \/ List.length (snd nv) = ns) sp ->
  ns <> 1%nat ->
  param_columns_src ns sp = Some (map (fun nv => (fst nv, col_of ns (snd nv))) sp) /\
  forall nv k d, In nv sp -> (k < ns)%nat ->
    nth k (col_of ns (snd nv)) d = nth (if Nat.eqb (List.length (snd nv)) 1 then 0 else k) (snd nv) d.
Proof.
  intros Hn Hf Hns. split.
  - unfold param_columns_src. apply Nat.eqb_neq in Hns. rewrite Hns.
    erewrite (param_loop ns _ _ sp []); [reflexivity | exact Hn | exact Hf].
    Unshelve. intros acc nv. reflexivity.
  - intros nv k d _ Hk. unfold col_of. destruct (Nat.eqb (List.length (snd nv)) 1) eqn:E; [|reflexivity].
    destruct (snd nv) as [|x [|y t]]; try discriminate. simpl.
    rewrite nth_indep with (d' := (fun _ : nat => x) 0%nat) by (rewrite map_length, seq_length; exact Hk).
    rewrite (map_nth (fun _ : nat => x) (seq 0 ns) 0%nat k). reflexivity.
Qed.

Theorem param_columns_src_one sp : param_columns_src 1 sp = Some sp.
Proof. reflexivity. Qed.


(* get_full_data: the column of the pair (p1, p2) is get_A p1 p2 at every sweep point, pairs in row-major pin order *)
Theorem get_full_data_src_is_get_A pins idx n (Ss : list (mx K)) :
  get_full_data_src pins idx Ss
  = flat_map (fun p1 => map (fun p2 => (p1, p2, map (fun S => get_A (pt pins idx n S) p1 p2) Ss)) pins) pins.
Proof. reflexivity. Qed.

(* S2PD: with the pins listed in [order] (positions in the pin dictionary), the entry in row r, column c of the table is
   get_A of the pins that label row r and column c *)
Theorem s2pd_src_is_get_A (m : smodel K) (order : list nat) :
  Forall (fun i => (i < List.length (sm_pins m))%nat) order ->
  let labels := map (fun i => nth i (sm_pins m) dpin) order in
  s2pd_src m order = (labels, map (fun p => map (fun q => get_A m p q) labels) labels).
Proof.
  intros H labels. unfold s2pd_src, get_A, labels. cbv zeta. f_equal.
  assert (E : map (fun i => nth i (map (sm_idx m) (sm_pins m)) 0%nat) order
              = map (sm_idx m) (map (fun i => nth i (sm_pins m) dpin) order)).
  { rewrite map_map. apply map_ext_in. intros i Hi. rewrite Forall_forall in H.
    rewrite nth_indep with (d' := sm_idx m dpin) by (rewrite map_length; apply H; exact Hi).
    apply map_nth. }
  rewrite E. rewrite map_map. apply map_ext. intros p. rewrite map_map. reflexivity.
Qed.

(* print_S prints func of the entries of the named matrix: same labels, same rows and columns as S2PD *)
Theorem print_S_src_is_s2pd (m : smodel K) (order : list nat) (func : K -> K) :
  print_S_src m order func = (fst (s2pd_src m order), map (map func) (snd (s2pd_src m order))).
Proof.
  unfold print_S_src, s2pd_src. cbv zeta. cbn [fst snd].
  set (L := map (fun i => nth i (map (sm_idx m) (sm_pins m)) 0%nat) order). f_equal.
  symmetry. rewrite (map_map (fun I => map (fun J => sm_S m I J) L) (map func)).
  apply map_ext. intros I. apply map_map.
Qed.

End ReadoutSrc.
Print Assumptions get_A_src_is_get_A.
Print Assumptions get_T_src_is_get_T.
Print Assumptions get_PH_arg_src_is_get_A.
Print Assumptions get_output_src_is_get_output.
Print Assumptions get_full_output_src_is_model.
Print Assumptions get_data_src_is_data_table.
Print Assumptions get_full_data_src_is_get_A.
Print Assumptions param_columns_src_spec.
Print Assumptions param_columns_src_one.
Print Assumptions s2pd_src_is_get_A.
Print Assumptions print_S_src_is_s2pd.
