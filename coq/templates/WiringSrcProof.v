(* templates/WiringSrcProof.v — fixed proof script appended to the definition that
   harness/translate_wiring.py generates from /repo's CURRENT source of Solver.connect: for every solver state
   and every pair of pins the source's guarded command — which tests it makes, in which order, what it has already
   written when it refuses — is the Connect clause of Wiring.step, the function the C16 / C07 theorems
   (atomicity of refused calls, the representation invariant) are proved about. *)
Theorem connect_src_is_step (s : wstate) (x y : spin) : connect_src s x y = step s (Connect x y).
Proof.
  destruct s as [st sto co cl fr mp]. unfold connect_src, step.
  cbn [w_structs w_store w_conns w_clist w_free w_map].
  destruct (Nat.eqb (fst x) (fst y)); [reflexivity|].
  destruct (mem x cl).
  - destruct (dget spin_eqb x co) as [x'|]; destruct (dget spin_eqb y co) as [y'|]; cbn [andb];
      repeat match goal with |- context [spin_eqb ?a ?b] => destruct (spin_eqb a b) end; reflexivity.
  - destruct (mem y cl); [reflexivity|].
    destruct (mem x fr); cbn [negb orb]; [|reflexivity].
    destruct (mem y fr); cbn [negb orb]; [|reflexivity].
    rewrite <- ?app_assoc. cbn [app]. unfold getst, setst. cbn [w_structs w_store w_conns w_clist w_free w_map].
    repeat match goal with
           | |- context [add_conn ?t ?a ?b] => destruct (add_conn t a b); cbn [w_structs w_store w_conns w_clist w_free w_map setst]
           end; reflexivity.
Qed.

Print Assumptions connect_src_is_step.
