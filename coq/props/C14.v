(* C14 — InPulse export followed by import reproduces the model. *)
From Coq Require Import List String Bool Arith QArith Reals.
From Lekkersim Require Import Base Names Modes InPulse InPulseProofs Interp Polar.
Import ListNotations.

Section RoundTrip.
Variable W : Type.                 (* the stored form of a coefficient: abs2 and phase as decimal text *)
Variable enc : C -> W.
Variable dec : W -> C.
(* the order in which base names end up in the header: any listing of them *)
Variable order : list string -> list string.
Hypothesis order_In : forall l b, In b (order l) <-> In b l.

(* the loaded model has exactly the pins of the exported one, each once *)
Theorem C14_loaded_pins m f : encode W enc order m = Ok f ->
  forall p, In p (l_pins W (decode W f)) <-> In p (s_pins m).
Proof. exact (loaded_pins W enc order order_In m f). Qed.

Theorem C14_loaded_pins_nodup m f : NoDup (order (pin_basenames (s_pins m))) ->
  encode W enc order m = Ok f -> NoDup (l_pins W (decode W f)).
Proof. exact (loaded_pins_nodup W enc order m f). Qed.

(* every pin set (modes or not), every index assignment, every matrix (non-symmetric, zeros), every
   sweep point k — first and last included: the loaded model holds between p and q the stored and
   re-read coefficient that the exported model has between p and q (not q and p) *)
Theorem C14_roundtrip_coeff m f p q k S : encode W enc order m = Ok f ->
  In p (s_pins m) -> In q (s_pins m) -> nth_error (s_S m) k = Some S ->
  let L := decode W f in
  coeff_at W dec L k (pin_pos p (l_pins W L)) (pin_pos q (l_pins W L)) =
  Some (dec (enc (S (s_idx m p) (s_idx m q)))).
Proof. exact (roundtrip_coeff W enc dec order order_In m f p q k S). Qed.

Theorem C14_roundtrip_grid m f p q k S : (forall z, dec (enc z) = z) -> encode W enc order m = Ok f ->
  In p (s_pins m) -> In q (s_pins m) -> nth_error (s_S m) k = Some S ->
  let L := decode W f in
  coeff_at W dec L k (pin_pos p (l_pins W L)) (pin_pos q (l_pins W L)) = Some (S (s_idx m p) (s_idx m q)).
Proof. exact (roundtrip_grid W enc dec order order_In m f p q k S). Qed.

(* evaluation at an exported sweep value is defined and returns the point's coefficient ... *)
Theorem C14_eval_at_grid (L : loaded W) xs k xk i j v :
  strictly_inc xs = true -> (2 <= List.length xs)%nat ->
  (forall c vals, In (c, vals) (l_cols W L) -> List.length vals = List.length xs) ->
  nth_error xs k = Some xk ->
  coeff_at W dec L k i j = Some v ->
  exists v', coeff_interp W dec L xs xk i j = Some v' /\ ceq v' v.
Proof. exact (eval_at_grid W dec L xs k xk i j v). Qed.

(* ... and between two neighbouring sweep values the model interpolates linearly *)
Theorem C14_eval_between (L : loaded W) xs k xk xk1 i j v v1 t :
  strictly_inc xs = true ->
  (forall c vals, In (c, vals) (l_cols W L) -> List.length vals = List.length xs) ->
  nth_error xs k = Some xk -> nth_error xs (S k) = Some xk1 ->
  coeff_at W dec L k i j = Some v -> coeff_at W dec L (S k) i j = Some v1 ->
  (0 <= t)%Q -> (t <= 1)%Q ->
  exists v', coeff_interp W dec L xs ((1 - t) * xk + t * xk1)%Q i j = Some v' /\
             ceq v' (cadd (cscal (1 - t) v) (cscal t v1)).
Proof. exact (eval_between W dec L xs k xk xk1 i j v v1 t). Qed.

(* a mode mapping selects and renames; no kept coefficient changes *)
Theorem C14_mode_select_ok mm (L L' : loaded W) p q tp tq k :
  NoDup (l_pins W L) -> NoDup (map fst (l_entries W L)) ->
  (forall e, In e (l_entries W L) -> In (fst (fst e)) (l_pins W L) /\ In (snd (fst e)) (l_pins W L)) ->
  select_modes W mm L = Ok L' ->
  In p (l_pins W L) -> In q (l_pins W L) -> mm_target mm p = Some tp -> mm_target mm q = Some tq ->
  (forall t, In t (l_pins W L') <-> exists x, In x (l_pins W L) /\ mm_target mm x = Some t) /\
  coeff_at W dec L' k (pin_pos tp (l_pins W L')) (pin_pos tq (l_pins W L')) =
  coeff_at W dec L k (pin_pos p (l_pins W L)) (pin_pos q (l_pins W L)).
Proof. exact (mode_select_ok W dec mm L L' p q tp tq k). Qed.
End RoundTrip.

(* interp1d itself *)
Theorem C14_interp_grid pts k xk yk :
  strictly_inc (map fst pts) = true -> (2 <= List.length pts)%nat ->
  nth_error pts k = Some (xk, yk) -> exists v, interp1 pts xk = Some v /\ ceq v yk.
Proof. exact (interp_grid pts k xk yk). Qed.

Theorem C14_interp_outside pts x :
  (forall p, In p pts -> (x < fst p)%Q) \/ (forall p, In p pts -> (fst p < x)%Q) -> interp1 pts x = None.
Proof. exact (interp_outside pts x). Qed.

(* the stored pair (|z|^2, arg z) determines z: over the reals *)
Theorem C14_polar_roundtrip (a b theta : R) : is_angle a b theta ->
  (sqrt (a * a + b * b) * cos theta = a /\ sqrt (a * a + b * b) * sin theta = b)%R.
Proof. exact (polar_roundtrip a b theta). Qed.

Print Assumptions C14_loaded_pins.
Print Assumptions C14_loaded_pins_nodup.
Print Assumptions C14_roundtrip_coeff.
Print Assumptions C14_roundtrip_grid.
Print Assumptions C14_eval_at_grid.
Print Assumptions C14_eval_between.
Print Assumptions C14_mode_select_ok.
Print Assumptions C14_interp_grid.
Print Assumptions C14_interp_outside.
Print Assumptions C14_polar_roundtrip.

(* non-vacuity: a two-pin two-mode model with a non-symmetric matrix, exported and loaded *)
Open Scope string_scope.
Definition ex_pins := [ {| basename := "a0"; mode_name := Some "te" |}; {| basename := "b0"; mode_name := Some "te" |};
                        {| basename := "a0"; mode_name := Some "tm" |} ].
Definition ex_model : solved :=
  {| s_pins := ex_pins; s_idx := fun p => pin_pos p ex_pins;
     s_S := [ (fun i j => (inject_Z (Z.of_nat (3 * i + j)), 0%Q)); (fun i j => (inject_Z (Z.of_nat (10 + 3 * i + j)), 1%Q)) ] |}.
Example C14_example :
  match encode C (fun z => z) (fun l => rev l) ex_model with
  | Ok f => let L := decode C f in
            (l_pins C L,
             coeff_at C (fun z => z) L 1 (pin_pos (nth 0 ex_pins {| basename := ""; mode_name := None |}) (l_pins C L))
                                          (pin_pos (nth 2 ex_pins {| basename := ""; mode_name := None |}) (l_pins C L)))
            = ([ {| basename := "a0"; mode_name := Some "te" |}; {| basename := "a0"; mode_name := Some "tm" |};
                 {| basename := "b0"; mode_name := Some "te" |} ], Some (inject_Z 12, 1%Q))
  | Err _ => False
  end.
Proof. vm_compute. reflexivity. Qed.
