(* C01 — the solved S-matrix equals the solution of the network equations.
   Only statements and `exact`; proofs live in theories/SolveProofs.v. *)
From Coq Require Import List Arith ZArith QArith.
From Lekkersim Require Import Field Matrix Base Kernel Network Solve SolveProofs SolveComplete Corr.
Import ListNotations.

Section C01.
Variable K : cfield.
Hypothesis KL : cfield_laws K.

(* one merge: the composite obeys its equations whenever the two parts and the links do *)
Theorem C01_join_sound cs (A B C : lst K) a b :
  join cs A B = Ok C -> Sem A a b -> Sem B a b -> link_eqs K cs a b -> Sem C a b.
Proof. exact (join_sound K KL cs A B C a b). Qed.

(* every netlist, every schedule: a returned result reports the solution of the network
   equations (E1 component equations, E2 connected pins exchange waves, E3 unexposed free pins
   receive nothing, exposed pins receive the excitation) at every remaining pin.  [solve]
   refuses a result (Err) when a pin that still has a partner would remain, i.e. when a
   connection has not been eliminated. *)
Theorem C01_solve_sound (net : netlist K) sched T :
  solve net sched = Ok T -> reports net T.
Proof. exact (solve_sound K KL net sched T). Qed.

(* unfolded reading of [reports] for one coefficient pair *)
Corollary C01_solve_sound_explicit (net : netlist K) sched T u a b :
  solve net sched = Ok T -> wave_solution net u a b ->
  forall i, (i < length (l_pins T))%nat ->
    feq K (b (nth i (l_pins T) dpin))
          (bigsum (length (l_pins T))
                  (fun j => fmul K (l_S T i j) (ext (expo net) u (nth j (l_pins T) dpin)))).
Proof. intros H W. exact (solve_sound K KL net sched T H u a b W). Qed.

(* the network equations do have a solution for every excitation (back-substitution), so the
   reported matrix is *the* solution whenever the network is well-posed *)
Theorem C01_solve_complete (net : netlist K) sched T (u : waves K) :
  solve net sched = Ok T -> exists a b, wave_solution net u a b.
Proof. exact (solve_complete K KL net sched T u). Qed.

(* the pins of the result are exactly the unconnected pins of the components: nothing is lost,
   no connected pin survives *)
Theorem C01_solve_pins (net : netlist K) sched T :
  solve net sched = Ok T ->
  NoDup (l_pins T) /\
  forall p, In p (l_pins T) <->
            In p (allpins (comps net)) /\ partner (conns net) p = None.
Proof. exact (solve_pins K net sched T). Qed.

End C01.

Print Assumptions C01_join_sound.
Print Assumptions C01_solve_sound.
Print Assumptions C01_solve_sound_explicit.
Print Assumptions C01_solve_complete.
Print Assumptions C01_solve_pins.

(* ---- non-vacuity: a ring resonator — a 4-port coupler, two reflective two-ports, two links
   between the same pair, a feedback loop, one hidden free pin — solves to Ok ---- *)
Definition ring_case : net_case :=
  {| nc_comps := [ (0, 4, [[cq 1 1 8; cq 0 2 8; cq 3 0 8; cq 1 (-1) 8];
                           [cq 0 1 8; cq 1 0 8; cq (-1) 1 8; cq 2 0 8];
                           [cq 3 (-1) 8; cq 1 1 8; cq 0 1 8; cq 0 (-2) 8];
                           [cq 1 0 8; cq (-2) 0 8; cq 1 2 8; cq 1 1 8]]);
                   (1, 2, [[cq 1 0 4; cq 2 1 4]; [cq 1 (-1) 4; cq 0 1 4]]);
                   (2, 2, [[cq 0 1 4; cq 1 1 4]; [cq 2 0 4; cq (-1) 0 4]]) ]%nat;
     nc_conns := [ ((0, 1), (1, 0)); ((1, 1), (2, 0)); ((2, 1), (0, 3)) ]%nat;
     nc_expo := [ (0, 0) ]%nat;
     nc_sched := None; nc_obs := Raised |}.

Example C01_ring_ok : is_ok (net_solve ring_case) = true.
Proof. vm_compute. reflexivity. Qed.
Example C01_ring_other_schedule_ok :
  is_ok (solve (net_of ring_case) [(1, 2); (0, 1)]%nat) = true.
Proof. vm_compute. reflexivity. Qed.
(* a connection that cannot be eliminated (two pins of one component) is refused, not ignored *)
Example C01_selfconn_refused :
  is_ok (solve (net_of {| nc_comps := nc_comps ring_case;
                          nc_conns := [ ((0, 1), (0, 2)) ]%nat; nc_expo := [];
                          nc_sched := None; nc_obs := Raised |}) [(0, 1); (0, 1)]%nat) = false.
Proof. vm_compute. reflexivity. Qed.
