(* C18 — the star-product kernel is the exact elimination of the shared ports.
   Only statements and `exact`; proofs live in theories/KernelProofs.v. *)
From Coq Require Import List Arith ZArith QArith.
From Lekkersim Require Import Field Matrix Base Kernel KernelProofs Corr.
Import ListNotations.

Section C18.
Variable K : cfield.
Hypothesis KL : cfield_laws K.

(* soundness: every solution of the pair's network equations obeys the joined matrix *)
Theorem C18_sadd_sound (A B C : smx K) (aL y x aR bL bR : vec K) :
  sadd A B = Ok C -> star_eqs A B aL y x aR bL bR ->
  veq (sN C) bL (outL C aL aR) /\ veq (sM C) bR (outR C aL aR).
Proof. exact (sadd_sound K KL A B C aL y x aR bL bR). Qed.

(* completeness: for every excitation the interface waves exist and give the joined outputs *)
Theorem C18_sadd_complete (A B C : smx K) (aL aR : vec K) :
  sadd A B = Ok C ->
  exists x y, star_eqs A B aL y x aR (outL C aL aR) (outR C aL aR).
Proof. exact (sadd_complete K KL A B C aL aR). Qed.

(* ... and are unique *)
Theorem C18_sadd_unique (A B C : smx K) aL aR y x bL bR y' x' bL' bR' :
  sadd A B = Ok C ->
  star_eqs A B aL y x aR bL bR -> star_eqs A B aL y' x' aR bL' bR' ->
  veq (sM A) x x' /\ veq (sM A) y y'.
Proof. exact (sadd_unique K KL A B C aL aR y x bL bR y' x' bL' bR'). Qed.

Theorem C18_sadd_assoc (A B C AB BC L R : smx K) :
  sadd A B = Ok AB -> sadd AB C = Ok L -> sadd B C = Ok BC -> sadd A BC = Ok R -> smx_eq L R.
Proof. exact (sadd_assoc K KL A B C AB BC L R). Qed.

Theorem C18_sadd_thru_l (A C : smx K) : sadd (thru (sN A)) A = Ok C -> smx_eq C A.
Proof. exact (sadd_thru_l K KL A C). Qed.

Theorem C18_sadd_thru_r (A C : smx K) : sadd A (thru (sM A)) = Ok C -> smx_eq C A.
Proof. exact (sadd_thru_r K KL A C). Qed.

Theorem C18_sadd_dim (A B : smx K) : sM A <> sN B -> sadd A B = Err EDim.
Proof. exact (sadd_dim K A B). Qed.

Theorem C18_int_complete_ok (A B : smx K) (u d uo do_ : vec K) :
  int_complete A B u d = Ok (uo, do_) ->
  veq (sM A) uo (vadd (mv (sN A) (S11 A) u) (mv (sM A) (S12 A) do_)) /\
  veq (sM A) do_ (vadd (mv (sM A) (S21 B) uo) (mv (sM B) (S22 B) d)).
Proof. exact (int_complete_ok K KL A B u d uo do_). Qed.

Theorem C18_sadd_batch_slices (As Bs Cs : list (smx K)) :
  sadd_batch As Bs = Ok Cs ->
  length Cs = length As /\ length Cs = length Bs /\
  forall k dA dB dC, (k < length Cs)%nat ->
    sadd (nth k As dA) (nth k Bs dB) = Ok (nth k Cs dC).
Proof. exact (sadd_batch_slices K As Bs Cs). Qed.

End C18.

Print Assumptions C18_sadd_sound.
Print Assumptions C18_sadd_complete.
Print Assumptions C18_sadd_unique.
Print Assumptions C18_sadd_assoc.
Print Assumptions C18_sadd_thru_l.
Print Assumptions C18_sadd_thru_r.
Print Assumptions C18_sadd_dim.
Print Assumptions C18_int_complete_ok.
Print Assumptions C18_sadd_batch_slices.

(* ---- non-vacuity: the Ok premise is met by reflective blocks over the executed field ---- *)
Definition exA : smx BQCf := smx_of
  {| lN := 2; lM := 1;
     l11 := [[cq 1 2 8; cq (-3) 1 8]]; l12 := [[cq 2 (-1) 8]];
     l21 := [[cq 1 0 8; cq 0 2 8]; [cq (-1) 1 8; cq 3 0 8]]; l22 := [[cq 1 1 8]; [cq (-2) 0 8]] |}.
Definition exB : smx BQCf := smx_of
  {| lN := 1; lM := 2;
     l11 := [[cq 3 0 8]; [cq 0 (-2) 8]]; l12 := [[cq 1 0 8; cq 1 1 8]; [cq 0 0 8; cq (-1) 2 8]];
     l21 := [[cq (-2) 3 8]]; l22 := [[cq 1 (-1) 8; cq 2 2 8]] |}.
Definition exZ : smx BQCf := smx_of   (* no kept pins on the left, two shared ports *)
  {| lN := 0; lM := 2; l11 := [[]; []]; l12 := [[cq 1 0 4; cq 0 1 4]; [cq 1 1 4; cq 0 0 4]];
     l21 := []; l22 := [] |}.
Definition exY : smx BQCf := smx_of
  {| lN := 2; lM := 1; l11 := [[cq 1 0 4; cq 0 1 4]]; l12 := [[cq 1 1 4]];
     l21 := [[cq 0 1 4; cq 1 0 4]; [cq (-1) 0 4; cq 1 (-1) 4]]; l22 := [[cq 1 0 4]; [cq 0 (-1) 4]] |}.

Example C18_ok_212 : is_ok (sadd exA exB) = true.
Proof. vm_compute. reflexivity. Qed.
Example C18_ok_021 : is_ok (sadd exZ exY) = true.
Proof. vm_compute. reflexivity. Qed.
Example C18_ok_thru : is_ok (sadd (thru 2) exY) = true /\ is_ok (sadd exA (thru 1)) = true.
Proof. split; vm_compute; reflexivity. Qed.
Example C18_ok_assoc :
  is_ok (do AB <- sadd exA exB; sadd AB (thru 2)) = true /\
  is_ok (do BC <- sadd exB (thru 2); sadd exA BC) = true.
Proof. split; vm_compute; reflexivity. Qed.
Example C18_ok_int : is_ok (int_complete exA exB (vecl [cq 1 0 1; cq 0 1 1]) (vecl [cq 1 1 1; cq 2 0 1])) = true.
Proof. vm_compute. reflexivity. Qed.
