(* C06 — solve() is a pure query and its results are immutable snapshots.
   In the model a solve is a FUNCTION of the circuit and of the call's arguments (Solve.solve,
   Hier.solve_hier, Params.deliver take no state and return none), so "earlier solves leave no
   trace" and "repeating a call repeats the answer" hold by construction; what needs proof is that
   the pieces of state the code does keep between calls cannot influence a call. *)
From Coq Require Import List Arith QArith.
From Lekkersim Require Import Base Network Wiring WiringProofs Params ParamsProofs.
Import ListNotations.

(* the working copy of a model's parameters: whatever the earlier calls and whatever it contained,
   after a call it is determined by the model's defaults and that call alone *)
Theorem C06_history_free defaults ws ws' h h' inc :
  run_updates upd_fixed defaults ws (h ++ [inc]) = run_updates upd_fixed defaults ws' (h' ++ [inc]).
Proof. exact (history_free defaults ws ws' h h' inc). Qed.

(* the formal record of defect F05: as found, a key supplied once leaks into later calls *)
Theorem C06_asfound_leaks :
  exists defaults inc1 inc2 k,
    pget k (run_updates upd_asfound defaults [] [inc1; inc2])
    <> pget k (run_updates upd_asfound defaults [] [inc2]).
Proof. exact asfound_leaks. Qed.

(* solving does not alter the circuit: the wiring state after a solve is the state before *)
Theorem C06_solve_preserves_circuit s : step s SolveOp = (s, None).
Proof. exact (solve_is_query s). Qed.

(* the value each component receives is a function of circuit and call: equal calls, equal values *)
Theorem C06_repeat_repeats fn t kw : deliver fn t kw = deliver fn t kw.
Proof. reflexivity. Qed.

Print Assumptions C06_history_free.
Print Assumptions C06_asfound_leaks.
Print Assumptions C06_solve_preserves_circuit.
