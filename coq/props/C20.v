(* C20 — accuracy and success do not degrade with size or depth: the exact-arithmetic half.
   Only statements and `exact`; proofs live in theories/Scale.v (and HierProofs.v, Energy.v). *)
From Coq Require Import List Arith ZArith QArith.
From Lekkersim Require Import Field Matrix Base Kernel Network Solve SolveProofs SolveComplete Energy Hier HierProofs Scale Corr.
Import ListNotations.

Section C20.
Variable K : cfield.
Hypothesis KL : cfield_laws K.

(* the loop of a successful solve of n components performs exactly n - 1 merges, for every n *)
Theorem C20_loop_terminates (net : netlist K) sched T :
  solve net sched = Ok T -> (length sched + 1 = length (comps net))%nat.
Proof. exact (loop_terminates K net sched T). Qed.

(* a cascade of ANY number n >= 1 of reflection-free two-ports: transmission = product of the
   transmissions, reflection = 0, under every schedule for which the solve is defined *)
Theorem C20_cascade_closed_form (ts : list K) sched T :
  ts <> [] -> solve (cascade K ts) sched = Ok T ->
  In (0, 0)%nat (l_pins T) -> In (length ts - 1, 1)%nat (l_pins T) ->
  feq K (coeff T (length ts - 1, 1)%nat (0, 0)%nat) (prodk K ts (length ts)) /\
  feq K (coeff T (0, 0)%nat (0, 0)%nat) (f0 K).
Proof. exact (cascade_closed_form K KL ts sched T). Qed.

(* nesting of ANY depth equals the flat circuit (C02), so a depth-d nest of cascades has the
   cascade's closed form *)
Theorem C20_nest_is_flat pick (c : circ K) (R : lst K) sched (Tf : lst K) :
  hier_wf K c -> solve_hier pick c = Ok R -> solve (inline c) sched = Ok Tf ->
  incl (l_pins R) (l_pins Tf) /\
  forall p q, In p (l_pins R) -> In q (l_pins R) -> feq K (coeff R p q) (coeff Tf p q).
Proof. exact (hier_transparent K KL pick c R sched Tf). Qed.

(* passive components: whatever the size, no excitation gains power (unconditional stability of
   the exact result); lossless components: the result is an isometry *)
Theorem C20_passive_any_size (net : netlist K) sched T :
  solve net sched = Ok T ->
  (forall L, In L (comps net) -> mx_passive K (length (l_pins L)) (l_S L)) ->
  forall u, fnonneg K (fsub K (lsum K (l_pins T) (fun p => pw K (ext (expo net) u p)))
                              (lsum K (l_pins T) (fun p => pw K (outw K T (ext (expo net) u) p)))).
Proof. exact (solve_passive K KL net sched T). Qed.

End C20.

Print Assumptions C20_loop_terminates.
Print Assumptions C20_cascade_closed_form.
Print Assumptions C20_nest_is_flat.
Print Assumptions C20_passive_any_size.

(* non-vacuity: a cascade of 12 two-ports solves in the model and meets the closed form *)
Definition ts12 : list BQCf := map (fun k => cq (3 + Z.of_nat k) 4 8) (seq 0 12).
Example C20_cascade12_ok :
  match solve (cascade BQCf ts12) (seq_sched 12) with
  | Ok T => feqb BQCf (coeff T (11, 1)%nat (0, 0)%nat) (prodk BQCf ts12 12)
  | Err _ => false end = true.
Proof. vm_compute. reflexivity. Qed.
