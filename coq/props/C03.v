(* C03 — the result is independent of declaration order and elimination order.
   Only statements and `exact`; proofs live in theories/SolveComplete.v. *)
From Coq Require Import List Arith ZArith QArith Permutation.
From Lekkersim Require Import Field Matrix Base Kernel Network Solve SolveProofs SolveComplete Corr.
Import ListNotations.

Section C03.
Variable K : cfield.
Hypothesis KL : cfield_laws K.

(* any two valid sequences of pairwise merges give the same pins and the same coefficients *)
Theorem C03_schedule_independent (net : netlist K) s1 s2 T1 T2 :
  solve net s1 = Ok T1 -> solve net s2 = Ok T2 ->
  (forall p, In p (l_pins T1) <-> In p (l_pins T2)) /\
  forall p q, In p (l_pins T1) -> In q (l_pins T1) -> feq K (coeff T1 p q) (coeff T2 p q).
Proof. exact (schedule_independent K KL net s1 s2 T1 T2). Qed.

(* components declared in any order, connections in any order and either orientation, pins
   exposed in any order: same coefficients, under any two schedules *)
Theorem C03_declaration_independent (net net' : netlist K) s1 s2 T1 T2 :
  same_circuit K net net' -> solve net s1 = Ok T1 -> solve net' s2 = Ok T2 ->
  forall p q, In p (l_pins T1) -> In q (l_pins T1) -> In p (l_pins T2) -> In q (l_pins T2) ->
    feq K (coeff T1 p q) (coeff T2 p q).
Proof. exact (declaration_independent K KL net net' s1 s2 T1 T2). Qed.

End C03.

Print Assumptions C03_schedule_independent.
Print Assumptions C03_declaration_independent.

(* ---- non-vacuity: three different schedules of the ring of props/C01.v all return Ok ---- *)
Definition ring3 : netlist BQCf := net_of
  {| nc_comps := [ (0, 4, [[cq 1 1 8; cq 0 2 8; cq 3 0 8; cq 1 (-1) 8];
                           [cq 0 1 8; cq 1 0 8; cq (-1) 1 8; cq 2 0 8];
                           [cq 3 (-1) 8; cq 1 1 8; cq 0 1 8; cq 0 (-2) 8];
                           [cq 1 0 8; cq (-2) 0 8; cq 1 2 8; cq 1 1 8]]);
                   (1, 2, [[cq 1 0 4; cq 2 1 4]; [cq 1 (-1) 4; cq 0 1 4]]);
                   (2, 2, [[cq 0 1 4; cq 1 1 4]; [cq 2 0 4; cq (-1) 0 4]]) ]%nat;
     nc_conns := [ ((0, 1), (1, 0)); ((1, 1), (2, 0)); ((2, 1), (0, 3)) ]%nat;
     nc_expo := [ (0, 0); (0, 2) ]%nat; nc_sched := None; nc_obs := Raised |}.

Example C03_three_schedules_ok :
  is_ok (solve ring3 [(0, 1); (0, 1)]%nat) = true /\
  is_ok (solve ring3 [(1, 2); (0, 1)]%nat) = true /\
  is_ok (solve ring3 [(2, 0); (1, 0)]%nat) = true.
Proof. repeat split; vm_compute; reflexivity. Qed.
