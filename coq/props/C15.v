(* C15 — read-out helpers are faithful, linear views of the scattering matrix. *)
From Coq Require Import List Arith.
From Lekkersim Require Import Field Matrix Base Network Readout.
Import ListNotations.

Section C15.
Variable K : cfield.
Hypothesis KL : cfield_laws K.

(* the reported outputs are S.u (pins not mentioned in the excitation count as zero) *)
Theorem C15_output_is_Su (m : smodel K) u p : In p (sm_pins m) ->
  In (p, mv (sm_n m) (sm_S m) (exc_vec m u) (sm_idx m p)) (get_output m u).
Proof. exact (output_is_Su K m u p). Qed.

(* superposition in amplitude mode *)
Theorem C15_output_linear (m : smodel K) (x y : vec K) c i :
  feq K (mv (sm_n m) (sm_S m) (vadd x y) i)
        (fadd K (mv (sm_n m) (sm_S m) x i) (mv (sm_n m) (sm_S m) y i)) /\
  feq K (mv (sm_n m) (sm_S m) (fun j => fmul K c (x j)) i) (fmul K c (mv (sm_n m) (sm_S m) x i)).
Proof. exact (output_linear K KL m x y c i). Qed.

(* a unit excitation at q reads out get_A(., q); T = A * conj A by definition *)
Theorem C15_output_unit (m : smodel K) p q : (sm_idx m q < sm_n m)%nat ->
  feq K (mv (sm_n m) (sm_S m) (basis (sm_idx m q)) (sm_idx m p)) (get_A m p q).
Proof. exact (output_unit K KL m p q). Qed.
Theorem C15_T_is_sqmod (m : smodel K) p q : get_T m p q = fmul K (get_A m p q) (fconj K (get_A m p q)).
Proof. reflexivity. Qed.

(* power mode is the squared modulus of the amplitude read-out *)
Theorem C15_power_is_sqmod (m : smodel K) u :
  get_output_power m u = map (fun pv => (fst pv, fmul K (snd pv) (fconj K (snd pv)))) (get_output m u).
Proof. exact (power_is_sqmod K m u). Qed.

(* row k of every sweep table is the scalar read-out of point k *)
Theorem C15_table_row_k (ms : list (smodel K)) u k d d' : (k < length ms)%nat ->
  nth k (full_output ms u) d' = get_output (nth k ms d) u.
Proof. exact (table_row_k K ms u k d d'). Qed.
Theorem C15_data_row_k (ms : list (smodel K)) p q k d d' : (k < length ms)%nat ->
  nth k (data_table ms p q) d' = (get_T (nth k ms d) p q, get_A (nth k ms d) p q).
Proof. exact (data_row_k K ms p q k d d'). Qed.

End C15.

Print Assumptions C15_output_is_Su.
Print Assumptions C15_output_linear.
Print Assumptions C15_output_unit.
Print Assumptions C15_power_is_sqmod.
Print Assumptions C15_table_row_k.
Print Assumptions C15_data_row_k.

(* dB and phase (over the reals): the dB column 20 log10 |A| is 10 log10 T, and a phase theta with
   |A| cos theta = Re A, |A| sin theta = Im A is what determines A together with T; each sampled
   value of the implementation is tied to these by a generated interval lemma (stream db_phase) *)
From Coq Require Import Reals.
From Lekkersim Require Import Polar.
Theorem C15_dB_amplitude (a b : R) : (0 < a * a + b * b)%R ->
  (20 * (ln (sqrt (a * a + b * b)) / ln 10) = 10 * (ln (a * a + b * b) / ln 10))%R.
Proof. exact (dB_amplitude a b). Qed.
Theorem C15_phase_is_arg (a b theta : R) : is_angle a b theta ->
  (sqrt (a * a + b * b) * cos theta = a /\ sqrt (a * a + b * b) * sin theta = b)%R.
Proof. exact (polar_roundtrip a b theta). Qed.
Print Assumptions C15_dB_amplitude.
Print Assumptions C15_phase_is_arg.
