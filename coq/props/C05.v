(* C05 — parameter values reach each component by precedence and renaming rules.
   Only statements and `exact`; proofs in theories/ParamsProofs.v. *)
From Coq Require Import List Arith QArith Permutation.
From Lekkersim Require Import Params ParamsProofs.
Import ListNotations.

(* what a placement's renaming (any list of new -> old pairs with distinct old names) delivers
   under every key k: the value supplied under the NEW name if k is a renamed parameter, nothing
   if k is a new name that is not itself a target, the incoming value otherwise *)
Theorem C05_rename_shield_spec m d k : NoDup (olds m) ->
  pget k (rename_shield m d) = rename_spec m d k.
Proof. exact (rename_shield_spec m d k). Qed.

(* simultaneous: independent of the order in which the pairs are listed — chains and swaps work *)
Theorem C05_rename_simultaneous m m' d k :
  NoDup (olds m) -> Permutation m m' -> pget k (rename_shield m d) = pget k (rename_shield m' d).
Proof. exact (rename_simultaneous m m' d k). Qed.

(* a renamed parameter is controlled only through its new name; its old name supplied from above
   does not reach the instance *)
Theorem C05_old_name_shielded m d n o :
  NoDup (olds m) -> In (n, o) m -> pget o (rename_shield m d) = pget n d.
Proof. exact (old_name_shielded m d n o). Qed.

Theorem C05_untouched_name_passes m d k :
  NoDup (olds m) -> ~ In k (news m) -> ~ In k (olds m) -> pget k (rename_shield m d) = pget k d.
Proof. exact (untouched_name_passes m d k). Qed.

(* renamings compose across nesting levels *)
Theorem C05_rename_compose m1 m2 d k :
  NoDup (olds m1) -> NoDup (olds m2) ->
  pget k (rename_shield m2 (rename_shield m1 d))
  = match new_of m2 k with
    | Some n2 => rename_spec m1 d n2
    | None => if inl k (news m2) then None else rename_spec m1 d k
    end.
Proof. exact (rename_compose m1 m2 d k). Qed.

(* precedence at a component: the value that arrives, else the model's own default *)
Theorem C05_model_precedence defaults incoming k : NoDup (map fst incoming) ->
  pget k (model_update defaults incoming)
  = match pget k incoming with Some v => Some v | None => pget k defaults end.
Proof. exact (model_precedence defaults incoming k). Qed.

(* precedence at a solver: an add_param definition, else the explicit value, else the solver
   default; the arguments of an add_param function: explicit value, else the CURRENT solver
   default, else the default given at definition *)
Theorem C05_solver_precedence fn defaults adds kw k :
  NoDup (map fst kw) -> NoDup (map ap_name adds) ->
  pget k (solver_update fn defaults adds kw)
  = match find (fun a => Nat.eqb (ap_name a) k) adds with
    | Some a => Some (addp_value fn defaults kw a)
    | None => match pget k kw with Some v => Some v | None => pget k defaults end
    end.
Proof. exact (solver_precedence fn defaults adds kw k). Qed.

Theorem C05_add_param_precedence fn defaults kw a :
  addp_value fn defaults kw a
  = fn (ap_fun a) (map (fun kv => (fst kv,
        match pget (fst kv) kw with
        | Some v => v
        | None => match pget (fst kv) defaults with Some v => v | None => snd kv end end)) (ap_args a)).
Proof. exact (add_param_precedence fn defaults kw a). Qed.

(* the formal record of defect F03: the loop as found (one pair at a time on the live copy) does
   NOT meet the specification — witness: a swap *)
Theorem C05_rename_asfound_refuted :
  exists m d k, NoDup (olds m) /\ NoDup (news m) /\ pget k (rename_asfound m d) <> rename_spec m d k.
Proof. exact rename_asfound_refuted. Qed.

Print Assumptions C05_rename_shield_spec.
Print Assumptions C05_rename_simultaneous.
Print Assumptions C05_old_name_shielded.
Print Assumptions C05_untouched_name_passes.
Print Assumptions C05_rename_compose.
Print Assumptions C05_model_precedence.
Print Assumptions C05_solver_precedence.
Print Assumptions C05_add_param_precedence.
Print Assumptions C05_rename_asfound_refuted.

(* non-vacuity: a swap and a chain *)
Example C05_swap :
  map (fun k => pget k (rename_shield [(1, 2); (2, 1)]%nat [(1%nat, 3 # 10); (2%nat, 1 # 10)]%Q)) [1; 2]%nat
  = [Some (1 # 10); Some (3 # 10)]%Q.
Proof. reflexivity. Qed.
