(* C02 — hierarchy is transparent: nested solvers equal the flat circuit.
   Only statements and `exact`; proofs live in theories/HierProofs.v. *)
From Coq Require Import List Arith ZArith QArith.
From Lekkersim Require Import Field Matrix Base Kernel Network Solve SolveProofs SolveComplete Hier HierProofs Corr.
Import ListNotations.

Section C02.
Variable K : cfield.
Hypothesis KL : cfield_laws K.
Variable pick : list (lst K) -> list conn -> list (nat * nat).   (* any schedule rule, per level *)

(* any nesting depth, any exposure subset at every level, a sub-circuit placed any number of
   times (each placement has its own leaf pins): the nested solve reports the solution of the
   network equations of the equivalent single-level circuit [inline c] *)
Theorem C02_hier_sound (c : circ K) (R : lst K) :
  hier_wf K c -> solve_hier pick c = Ok R -> reports (inline c) R.
Proof. intros W H. exact (proj2 (hier_sound K KL pick c R W H)). Qed.

(* ... hence it has exactly the coefficients of a solve of the flat circuit, whatever schedule
   the flat solve and the nested levels use *)
Theorem C02_hier_transparent (c : circ K) (R : lst K) sched (Tf : lst K) :
  hier_wf K c -> solve_hier pick c = Ok R -> solve (inline c) sched = Ok Tf ->
  incl (l_pins R) (l_pins Tf) /\
  forall p q, In p (l_pins R) -> In q (l_pins R) -> feq K (coeff R p q) (coeff Tf p q).
Proof. exact (hier_transparent K KL pick c R sched Tf). Qed.

(* one level: a solver's solved model reports that level's network equations *)
Theorem C02_level_sound (N : netlist K) sched T R :
  solve N sched = Ok T -> restrict T (expo N) = Ok R -> reports N R.
Proof. exact (level_sound K KL N sched T R). Qed.

(* a bare component equals a solver containing only it with all pins raised *)
Theorem C02_bare_equals_wrapped (L R : lst K) :
  solve_hier pick (Sub [Leaf L] [] (l_pins L)) = Ok R ->
  l_pins R = l_pins L /\ meq (length (l_pins L)) (length (l_pins L)) (l_S R) (l_S L).
Proof. exact (bare_equals_wrapped K KL pick L R). Qed.

End C02.

Print Assumptions C02_hier_sound.
Print Assumptions C02_hier_transparent.
Print Assumptions C02_level_sound.
Print Assumptions C02_bare_equals_wrapped.

(* ---- non-vacuity: a depth-3 hierarchy with a hidden inner pin solves, nested and flat ---- *)
Definition h3 : hcirc :=
  HSub [ HSub [ HSub [ HLeaf 0 3 [[cq 1 0 8; cq 2 1 8; cq 0 1 8]; [cq 1 1 8; cq 0 0 8; cq 3 0 8]; [cq 2 0 8; cq 1 (-1) 8; cq 1 0 8]];
                       HLeaf 1 2 [[cq 1 0 4; cq 1 1 4]; [cq 2 0 4; cq 0 1 4]] ]
                     [ ((0, 1), (1, 0)) ]%nat [ (0, 0); (1, 1) ]%nat;     (* (0,2) stays hidden *)
               HLeaf 2 2 [[cq 0 1 4; cq 1 0 4]; [cq 1 0 4; cq 1 1 4]] ]
             [ ((1, 1), (2, 0)) ]%nat [ (0, 0); (2, 1) ]%nat;
         HLeaf 3 1 [[cq 1 1 4]] ]
       [ ((2, 1), (3, 0)) ]%nat [ (0, 0) ]%nat.

Example C02_h3_ok :
  is_ok (solve_hier seq_pick (circ_of h3)) = true /\
  is_ok (solve (inline (circ_of h3)) (seq_sched 4)) = true /\ depth (circ_of h3) = 3%nat.
Proof. repeat split; vm_compute; reflexivity. Qed.
