(* C04 — a parameter sweep equals the stack of the individual scalar solves.
   The model defines the sweep as the map of the scalar solve over the points; the theorems pin
   down the normalisation logic (common length, broadcast, rejection).  That numpy's batched
   evaluation and every library block's create_S implement exactly this (no buffer re-use between
   points) is part of the tie, with the scalar solves as oracle. *)
From Coq Require Import List Arith QArith.
From Lekkersim Require Import Base Params Sweep.
Import ListNotations.

(* index k of a sweep is the scalar solve at the k-th value of every parameter; scalars and
   length-1 arrays are broadcast; for ANY scalar solve function (solver, nested solver, model) *)
Theorem C04_sweep_pointwise {A} (f : dict -> A) d l :
  sweep_solve f d = Ok l ->
  exists ns d', normalise d = Ok (ns, d') /\ length l = ns /\
    forall k dflt, (k < ns)%nat ->
      nth k l dflt = f (point k d') /\
      forall name vs, sget name d = Some vs ->
        pget name (point k d') = Some (if Nat.eqb (length vs) 1 then hd 0%Q vs else nth k vs 0%Q).
Proof. exact (sweep_pointwise f d l). Qed.

(* arrays of inconsistent length are rejected *)
Theorem C04_sweep_reject d k1 l1 k2 l2 :
  In (k1, l1) d -> In (k2, l2) d ->
  length l1 <> 1%nat -> length l2 <> 1%nat -> length l1 <> length l2 ->
  normalise d = Err EShape.
Proof. exact (sweep_reject d k1 l1 k2 l2). Qed.

(* all arrays longer than 1 share the sweep length *)
Theorem C04_common_length d ns n : common_len d ns = Ok n ->
  forall k l, In (k, l) d -> length l = 1%nat \/ length l = n.
Proof. exact (common_len_spec d ns n). Qed.

Print Assumptions C04_sweep_pointwise.
Print Assumptions C04_sweep_reject.
Print Assumptions C04_common_length.

Example C04_example :
  sweep_solve (fun p => pget 1 p) [(1%nat, [1; 2; 3]%Q); (2%nat, [5]%Q)] = Ok [Some 1%Q; Some 2%Q; Some 3%Q]
  /\ normalise [(1%nat, [1; 2; 3]%Q); (2%nat, [5; 6]%Q)] = Err EShape.
Proof. split; reflexivity. Qed.
