(* C16 — wiring calls are validated and atomic; pin names are never confused.
   Only statements and `exact`; proofs in theories/WiringProofs.v and theories/NamesProofs.v. *)
From Coq Require Import List String Arith Bool.
From Lekkersim Require Import Base Network Wiring WiringProofs WiringInv WiringRep WiringRep2 Names NamesProofs.
Import ListNotations.

(* a pin takes part in at most one connection: any other partner is refused, whichever argument
   position the occupied pin is in, and the state is untouched *)
Theorem C16_one_connection_per_pin s x y :
  mem x (w_clist s) = true \/ mem y (w_clist s) = true ->
  Nat.eqb (fst x) (fst y) = false ->
  dget spin_eqb x (w_conns s) <> Some y -> dget spin_eqb y (w_conns s) <> Some x ->
  step s (Connect x y) = (s, Some EAlreadyConnected).
Proof. exact (one_connection_per_pin s x y). Qed.

(* repeating an identical connect, in either orientation, is a no-op *)
Theorem C16_connect_idempotent s x y :
  Nat.eqb (fst x) (fst y) = false ->
  mem x (w_clist s) = true -> mem y (w_clist s) = true ->
  dget spin_eqb x (w_conns s) = Some y -> dget spin_eqb y (w_conns s) = None ->
  step s (Connect x y) = (s, None) /\ step s (Connect y x) = (s, None).
Proof. exact (connect_idempotent s x y). Qed.

(* every validation failure of connect (same structure, pin occupied, pin not a free pin of the
   solver) leaves the circuit exactly as it was, in ANY state *)
Theorem C16_connect_validation_atomic s x y s' e :
  step s (Connect x y) = (s', Some e) ->
  s' = s \/
  (Nat.eqb (fst x) (fst y) = false /\ mem x (w_clist s) = false /\ mem y (w_clist s) = false /\
   mem x (w_free s) = true /\ mem y (w_free s) = true).
Proof. exact (connect_validation_atomic s x y s' e). Qed.

(* ... and the remaining case cannot occur: after ANY history of add / connect / cut / remove / prune / map /
   raise / solve calls (accepted or rejected, in any order) a rejected connect or add leaves every table of the
   solver AND of every structure exactly as it was.  Proved through the representation invariant [Rep]
   (WiringRep.v, WiringRep2.v), which holds in every reachable state. *)
Theorem C16_rejected_call_changes_nothing ops o s' e :
  (exists x y, o = Connect x y) \/ (exists id n, o = Add id n) ->
  step (run w_empty ops) o = (s', Some e) -> s' = run w_empty ops.
Proof. exact (rejected_call_changes_nothing_anywhere ops o s' e). Qed.

(* cut_structure / remove_structure are all-or-nothing as well *)
Theorem C16_detach_all_or_nothing ops id s' e :
  step (run w_empty ops) (Cut id) = (s', Some e) \/ step (run w_empty ops) (Remove id) = (s', Some e) ->
  s' = run w_empty ops /\ e = ENotPresent.
Proof. exact (detach_all_or_nothing ops id s' e). Qed.

Theorem C16_add_present_rejected s id n :
  nmem id (w_structs s) = true -> step s (Add id n) = (s, Some EAlreadyPresent).
Proof. exact (add_present_rejected s id n). Qed.

(* two distinct pins whose printable names coincide: the name table is refused *)
Theorem C16_name_collision_rejected pins p q :
  In p pins -> In q pins -> p <> q -> pin_name p = pin_name q -> NoDup pins ->
  update_pins pins = Err ENameClash.
Proof. exact (name_collision_rejected pins p q). Qed.

(* an accepted table resolves every name to exactly the pin that carries it *)
Theorem C16_names_resolve pins t p :
  update_pins pins = Ok t -> In p pins -> lookup (pin_name p) t = Some p.
Proof. exact (names_resolve pins t p). Qed.
Theorem C16_names_sound pins t n p :
  update_pins pins = Ok t -> lookup n t = Some p -> In p pins /\ pin_name p = n.
Proof. exact (names_sound pins t n p). Qed.

(* a model whose pins were renamed is addressable by the new names *)
Theorem C16_rename_addressable ren pins t old new :
  update_pins (rename_pins ren pins) = Ok t ->
  In old pins -> find (fun e => pin_eqb (fst e) old) ren = Some (old, new) ->
  lookup (pin_name new) t = Some new.
Proof. exact (rename_addressable ren pins t old new). Qed.

Print Assumptions C16_one_connection_per_pin.
Print Assumptions C16_connect_idempotent.
Print Assumptions C16_connect_validation_atomic.
Print Assumptions C16_rejected_call_changes_nothing.
Print Assumptions C16_detach_all_or_nothing.
Print Assumptions C16_add_present_rejected.
Print Assumptions C16_name_collision_rejected.
Print Assumptions C16_names_resolve.
Print Assumptions C16_names_sound.
Print Assumptions C16_rename_addressable.

(* non-vacuity: Pin("a_b") and Pin("a","b") collide; a clean table resolves *)
Open Scope string_scope.
Example C16_collision :
  update_pins [ {| basename := "a_b"; mode_name := None |}; {| basename := "a"; mode_name := Some "b" |} ]
  = Err ENameClash.
Proof. reflexivity. Qed.
Example C16_resolve :
  match update_pins [ {| basename := "a0"; mode_name := None |}; {| basename := "a0"; mode_name := Some "TE" |} ] with
  | Ok t => lookup "a0_TE" t | Err _ => None end = Some {| basename := "a0"; mode_name := Some "TE" |}.
Proof. reflexivity. Qed.
