(* C17 — the active-solver stack follows with-block nesting. *)
From Coq Require Import List Arith.
From Lekkersim Require Import Stack.
Import ListNotations.

(* for every program (any nesting, exceptions at any point, try/except anywhere) and both kinds of
   exit, the stack of active solvers afterwards equals the one before *)
Theorem C17_stack_restored p cur s : stack (snd (exec p cur s)) = stack s.
Proof. exact (stack_restored p cur s). Qed.

(* every helper call acts on the solver of the innermost enclosing with-block *)
Theorem C17_helpers_hit_innermost p cur s :
  top (stack s) = cur -> log_ok (log s) -> log_ok (log (snd (exec p cur s))).
Proof. exact (helpers_hit_innermost p cur s). Qed.

(* a program only appends to the record of effects: earlier effects are untouched *)
Theorem C17_log_extends p cur s : exists l', log (snd (exec p cur s)) = log s ++ l'.
Proof. exact (log_extends p cur s). Qed.

Print Assumptions C17_stack_restored.
Print Assumptions C17_helpers_hit_innermost.
Print Assumptions C17_log_extends.

(* non-vacuity: re-entering an active solver with another in between, an exception inside *)
Example C17_reenter :
  exec (PWith 1 (PSeq (PWith 2 (PSeq (PWith 1 (PHelper 7)) (PHelper 8))) (PTry (PWith 3 PRaise)))) 0
       {| stack := [0]; log := [] |}
  = (Normal, {| stack := [0]; log := [(7, 1, 1); (8, 2, 2)] |}).
Proof. reflexivity. Qed.
