(* C08 — composition preserves energy conservation, passivity and reciprocity.
   Only statements and `exact`; proofs live in theories/Energy.v. *)
From Coq Require Import List Arith ZArith QArith Lia.
From Lekkersim Require Import Field Matrix Base Kernel Network Solve SolveProofs SolveComplete Energy Corr.
Import ListNotations.

Section C08.
Variable K : cfield.
Hypothesis KL : cfield_laws K.

(* all components passive (no vector gains power): for every excitation of the exposed pins —
   any exposure subset — the power leaving through all free pins is at most the power entering *)
Theorem C08_solve_passive (net : netlist K) sched T :
  solve net sched = Ok T ->
  (forall L, In L (comps net) -> mx_passive K (length (l_pins L)) (l_S L)) ->
  forall u, fnonneg K (fsub K (lsum K (l_pins T) (fun p => pw K (ext (expo net) u p)))
                              (lsum K (l_pins T) (fun p => pw K (outw K T (ext (expo net) u) p)))).
Proof. exact (solve_passive K KL net sched T). Qed.

(* all components lossless: total output power equals total input power for every excitation
   (with all free pins exposed, ext u = u on the result's pins: the result is an isometry) *)
Theorem C08_solve_lossless (net : netlist K) sched T :
  solve net sched = Ok T ->
  (forall L, In L (comps net) -> mx_lossless K (length (l_pins L)) (l_S L)) ->
  forall u, feq K (lsum K (l_pins T) (fun p => pw K (ext (expo net) u p)))
                  (lsum K (l_pins T) (fun p => pw K (outw K T (ext (expo net) u) p))).
Proof. exact (solve_lossless K KL net sched T). Qed.

(* all components reciprocal (S = S^T): so is the circuit *)
Theorem C08_solve_reciprocal (net : netlist K) sched T :
  solve net sched = Ok T ->
  (forall L, In L (comps net) -> mx_reciprocal K (length (l_pins L)) (l_S L)) ->
  forall p q, In p (l_pins T) -> In q (l_pins T) -> feq K (coeff T p q) (coeff T q p).
Proof. exact (solve_reciprocal K KL net sched T). Qed.

(* the same facts for arbitrary wave solutions, independent of any solving algorithm *)
Theorem C08_network_passive (net : netlist K) u a b :
  NoDup (conn_ends (conns net)) -> NoDup (allpins (comps net)) ->
  (forall p, In p (conn_ends (conns net)) -> In p (allpins (comps net))) ->
  (forall L, In L (comps net) -> mx_passive K (length (l_pins L)) (l_S L)) ->
  wave_solution net u a b ->
  fnonneg K (lsum K (free_pins K net) (pflux K a b)).
Proof. exact (network_passive K KL net u a b). Qed.

(* the textbook unitarity condition S^H S = I gives the lossless premise *)
Theorem C08_unitary_lossless n (S : mx K) : mx_unitary K n S -> mx_lossless K n S.
Proof. exact (unitary_lossless K KL n S). Qed.

End C08.

Print Assumptions C08_solve_passive.
Print Assumptions C08_solve_lossless.
Print Assumptions C08_solve_reciprocal.
Print Assumptions C08_network_passive.
Print Assumptions C08_unitary_lossless.

(* ---- non-vacuity: an exactly unitary symmetric two-port satisfies all three premises ---- *)
Definition rot : mx BQCf := mxl [[cq 3 0 5; cq 0 4 5]; [cq 0 4 5; cq 3 0 5]].

Example C08_rot_reciprocal : mx_reciprocal BQCf 2 rot.
Proof.
  intros i j Hi Hj. destruct i as [|[|i]]; [| |lia]; destruct j as [|[|j]]; try lia;
    apply (feqb_ok BQCf BQCf_laws); vm_compute; reflexivity.
Qed.
Example C08_rot_unitary : mx_unitary BQCf 2 rot.
Proof.
  intros j k Hj Hk. destruct j as [|[|j]]; [| |lia]; destruct k as [|[|k]]; try lia;
    apply (feqb_ok BQCf BQCf_laws); vm_compute; reflexivity.
Qed.
Example C08_rot_lossless : mx_lossless BQCf 2 rot.
Proof. exact (unitary_lossless BQCf BQCf_laws 2 rot C08_rot_unitary). Qed.
