(* C19 — prune() removes exactly the dead branches and nothing else. *)
From Coq Require Import List Arith Bool.
From Lekkersim Require Import Field Matrix Base Network Solve Hier HierProofs Prune PruneProofs.
Import ListNotations.

Section C19.
Variable K : cfield.
Hypothesis KL : cfield_laws K.

(* after prune() no dead branch (empty model, or solver containing only dead branches) is left at
   any level of the hierarchy *)
Theorem C19_prune_no_dead (c : circ K) : no_dead (prune c).
Proof. exact (prune_no_dead K c). Qed.

(* nothing else is removed: a hierarchy without dead branches is left exactly as it is — structures,
   connections and exposed pins at every level — hence prune is idempotent *)
Theorem C19_prune_fixpoint (c : circ K) : no_dead c -> prune c = c.
Proof. exact (prune_fixpoint K c). Qed.
Theorem C19_prune_idempotent (c : circ K) : prune (prune c) = prune c.
Proof. exact (prune_idempotent K c). Qed.

(* the value returned says whether the solver itself is empty, before and after *)
Theorem C19_dead_prune (c : circ K) : dead (prune c) = dead c.
Proof. exact (dead_prune K c). Qed.

(* the leaf components that survive are exactly the non-empty ones, in order *)
Theorem C19_prune_leaves (c : circ K) :
  leaves (prune c) = filter (fun L => match l_pins L with [] => false | _ => true end) (leaves c)
  \/ dead c = true.
Proof. exact (prune_leaves K c). Qed.

(* the pruned solver solves to the matrix of the circuit with the dead branches: same network
   equations, so (C02) the nested solve of the pruned hierarchy reports the original circuit *)
Theorem C19_prune_same_matrix pick (c : circ K) (R : lst K) :
  clean K c -> dead c = false -> hier_wf K (prune c) -> solve_hier pick (prune c) = Ok R ->
  reports (inline c) R.
Proof. exact (prune_same_matrix K KL pick c R). Qed.

End C19.

Print Assumptions C19_prune_no_dead.
Print Assumptions C19_prune_fixpoint.
Print Assumptions C19_prune_idempotent.
Print Assumptions C19_dead_prune.
Print Assumptions C19_prune_leaves.
Print Assumptions C19_prune_same_matrix.
