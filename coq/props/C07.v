(* C07 — after any edit history the solver equals a freshly built one.
   The state of the solver AND of every structure it ever held is, in every reachable state, a function of
   the list of present structures and the set of links (representation invariant Rep, preserved by every
   operation: C07_tables_consistent); the pins reported free are exactly, each once, the unconnected pins of the
   present structures (C07_free_pins_exact); the matrix of a circuit does not depend on how it was declared
   (C07_fresh_equivalence). *)
From Coq Require Import List Arith Bool.
From Lekkersim Require Import Field Matrix Base Network Solve SolveProofs SolveComplete Wiring WiringProofs WiringInv WiringRep WiringRep2 WiringFree WiringWF.
Import ListNotations.

(* solving is a query on the wiring state *)
Theorem C07_solve_is_query s : step s SolveOp = (s, None).
Proof. exact (solve_is_query s). Qed.

(* an accepted connect is recorded so that it is recognised afterwards *)
Theorem C07_connect_records s x y s' :
  step s (Connect x y) = (s', None) -> mem x (w_clist s) = false ->
  dget spin_eqb x (w_conns s') = Some y /\ mem x (w_clist s') = true /\ mem y (w_clist s') = true.
Proof. exact (connect_records s x y s'). Qed.

(* rejected cut/remove of an absent structure change nothing *)
Theorem C07_cut_absent_rejected s id :
  nmem id (w_structs s) = false ->
  step s (Cut id) = (s, Some ENotPresent) /\ step s (Remove id) = (s, Some ENotPresent).
Proof. exact (cut_absent_rejected s id). Qed.

(* in every reachable state — any history over add, connect, cut, remove, prune, map, raise, solve — the
   per-structure connection tables, the solver's connection list and the neighbour lists say exactly what the
   link set says: nothing stale survives a cut or a remove, nothing is lost *)
Theorem C07_tables_consistent ops z w :
  let s := run w_empty ops in
  (entry s (fst z) z = Some w <-> linked s z w) /\
  (In z (w_clist s) <-> exists w', linked s z w') /\
  (linked s z w -> nmem (fst z) (w_structs s) = true /\ nmem (fst w) (s_to (getst s (fst z))) = true).
Proof. exact (tables_consistent ops z w). Qed.

(* after ANY history the pins the solver reports as free (and auto-raises) are exactly, each once, the pins of the
   present structures that take part in no connection: pins freed by a cut are free again, pins that faced a removed
   structure are gone, a structure that was cut and added again brings its pins back *)
Theorem C07_free_pins_exact ops p :
  let s := run w_empty ops in
  NoDup (w_free s) /\
  (In p (w_free s) <->
   nmem (fst p) (w_structs s) = true /\ In p (s_pins (getst s (fst p))) /\ ~ exists w, linked s p w).
Proof. exact (free_pins_exact ops p). Qed.

(* the circuit a reachable state denotes is well formed — one connection per pin, all pins of the present structures
   distinct, every connection end a pin of a present structure: exactly the checks Solve.solve makes before eliminating,
   so after any history the solve of the remaining circuit can only be undefined for a singular inner system *)
Theorem C07_denoted_circuit_wellformed ops :
  let s := run w_empty ops in
  NoDup (map fst (w_conns s) ++ map snd (w_conns s)) /\
  NoDup (present_pins' s) /\
  (forall p, In p (map fst (w_conns s) ++ map snd (w_conns s)) -> In p (present_pins' s)).
Proof. exact (denoted_circuit_wellformed ops). Qed.

Theorem C07_invariant_everywhere ops : Rep (run w_empty ops).
Proof. exact (Rep_reachable ops). Qed.

(* the matrix of a state is the one of the circuit it denotes — whatever the history that led to
   it — and that is the exact solution of the network equations of the remaining circuit (C01),
   independent of how the remaining circuit was declared or is eliminated (C03) *)
Section Matrix.
Variable K : cfield.
Hypothesis KL : cfield_laws K.
Theorem C07_fresh_equivalence (net net' : netlist K) s1 s2 T1 T2 :
  same_circuit K net net' -> solve net s1 = Ok T1 -> solve net' s2 = Ok T2 ->
  forall p q, In p (l_pins T1) -> In q (l_pins T1) -> In p (l_pins T2) -> In q (l_pins T2) ->
    feq K (coeff T1 p q) (coeff T2 p q).
Proof. exact (declaration_independent K KL net net' s1 s2 T1 T2). Qed.
End Matrix.

Print Assumptions C07_solve_is_query.
Print Assumptions C07_connect_records.
Print Assumptions C07_cut_absent_rejected.
Print Assumptions C07_fresh_equivalence.
Print Assumptions C07_tables_consistent.
Print Assumptions C07_invariant_everywhere.
Print Assumptions C07_free_pins_exact.
Print Assumptions C07_denoted_circuit_wellformed.

Example C07_history_runs :
  w_free (run w_empty [Add 0 2; Add 1 2; Connect (0,1) (1,0); Cut 1; Add 1 2; Connect (1,1) (0,1)])
  = [(0, 0); (1, 0)]%nat.
Proof. vm_compute. reflexivity. Qed.
