(* C07 — after any edit history the solver equals a freshly built one.
   PARTIAL (see DESIGN.md §8): what is proved here holds in every state of every history; the full
   invariant relating ALL tables (incl. the per-structure ones) to the remaining circuit is stated
   in DESIGN.md and tied by the correspondence (every observable table after every call), not yet
   proved. *)
From Coq Require Import List Arith Bool.
From Lekkersim Require Import Field Matrix Base Network Solve SolveProofs SolveComplete Wiring WiringProofs.
Import ListNotations.

(* solving is a query on the wiring state *)
Theorem C07_solve_is_query s : step s SolveOp = (s, None).
Proof. exact (solve_is_query s). Qed.

(* an accepted connect is recorded so that it is recognised afterwards *)
Theorem C07_connect_records s x y s' :
  step s (Connect x y) = (s', None) -> mem x (w_clist s) = false ->
  dget spin_eqb x (w_conns s') = Some y /\ mem x (w_clist s') = true /\ mem y (w_clist s') = true.
Proof. exact (connect_records s x y s'). Qed.

(* rejected cut/remove of an absent structure change nothing *)
Theorem C07_cut_absent_rejected s id :
  nmem id (w_structs s) = false ->
  step s (Cut id) = (s, Some ENotPresent) /\ step s (Remove id) = (s, Some ENotPresent).
Proof. exact (cut_absent_rejected s id). Qed.

(* the matrix of a state is the one of the circuit it denotes — whatever the history that led to
   it — and that is the exact solution of the network equations of the remaining circuit (C01),
   independent of how the remaining circuit was declared or is eliminated (C03) *)
Section Matrix.
Variable K : cfield.
Hypothesis KL : cfield_laws K.
Theorem C07_fresh_equivalence (net net' : netlist K) s1 s2 T1 T2 :
  same_circuit K net net' -> solve net s1 = Ok T1 -> solve net' s2 = Ok T2 ->
  forall p q, In p (l_pins T1) -> In q (l_pins T1) -> In p (l_pins T2) -> In q (l_pins T2) ->
    feq K (coeff T1 p q) (coeff T2 p q).
Proof. exact (declaration_independent K KL net net' s1 s2 T1 T2). Qed.
End Matrix.

Print Assumptions C07_solve_is_query.
Print Assumptions C07_connect_records.
Print Assumptions C07_cut_absent_rejected.
Print Assumptions C07_fresh_equivalence.

Example C07_history_runs :
  w_free (run w_empty [Add 0 2; Add 1 2; Connect (0,1) (1,0); Cut 1; Add 1 2; Connect (1,1) (0,1)])
  = [(0, 0); (1, 0)]%nat.
Proof. vm_compute. reflexivity. Qed.
