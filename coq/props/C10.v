(* C10 — monitors report the true internal waves and do not disturb the circuit. *)
From Coq Require Import List Arith.
From Lekkersim Require Import Field Matrix Base Kernel Network Solve SolveProofs SolveComplete Energy Monitor MonitorProofs.
Import ListNotations.

Section C10.
Variable K : cfield.
Hypothesis KL : cfield_laws K.

(* for ANY circuit, ANY set of monitored components, ANY schedules of the two parts, ANY excitation u
   and EVERY wave solution (a, b) of the network equations: the read-out has one entry per link
   between a monitored and a non-monitored component — exactly those — naming the pin on the
   monitored side, and its "_i" value is the wave entering the monitored side there, its "_o" value
   the wave leaving it *)
Theorem C10_monitor_waves (net : netlist K) ids s1 s2 u r a b :
  mon_solve net ids s1 s2 u = Ok r -> wave_solution net u a b ->
  exists main mon, mon_parts net ids s1 s2 = Ok (main, mon, mr_T r) /\
    let ys := map snd (links (conns net) main mon) in
    length (mr_read r) = length ys /\
    forall j d, (j < length ys)%nat ->
      fst (fst (nth j (mr_read r) d)) = nth j ys dpin /\
      feq K (snd (fst (nth j (mr_read r) d))) (a (nth j ys dpin)) /\
      feq K (snd (nth j (mr_read r) d)) (b (nth j ys dpin)).
Proof. exact (mon_solve_waves K KL net ids s1 s2 u r a b). Qed.

(* declaring monitors does not change the external matrix *)
Theorem C10_monitor_transparent (net : netlist K) ids s1 s2 main mon T sched T' :
  mon_parts net ids s1 s2 = Ok (main, mon, T) -> solve net sched = Ok T' ->
  forall p q, In p (l_pins T) -> In q (l_pins T) -> In p (l_pins T') -> In q (l_pins T') ->
    feq K (coeff T p q) (coeff T' p q).
Proof. exact (monitor_transparent K KL net ids s1 s2 main mon T sched T'). Qed.

(* the matrix obtained with monitors reports the solution of the network equations *)
Theorem C10_mon_sound (net : netlist K) ids s1 s2 main mon T :
  mon_parts net ids s1 s2 = Ok (main, mon, T) -> reports net T.
Proof. exact (mon_sound K KL net ids s1 s2 main mon T). Qed.

(* a lossless monitored part: incoming and outgoing powers over all its pins balance (with no
   free pin of its own, these are the reported _i and _o columns) *)
Theorem C10_monitor_balance (net : netlist K) ids s2 mon u a b :
  solve (group_net net (in_group ids)) s2 = Ok mon ->
  (forall L, In L (comps net) -> in_group ids L = true -> mx_lossless K (length (l_pins L)) (l_S L)) ->
  wave_solution net u a b ->
  feq K (lsum K (l_pins mon) (fun p => pw K (a p))) (lsum K (l_pins mon) (fun p => pw K (b p))).
Proof. exact (monitor_balance K KL net ids s2 mon u a b). Qed.

End C10.

Print Assumptions C10_monitor_waves.
Print Assumptions C10_monitor_transparent.
Print Assumptions C10_mon_sound.
Print Assumptions C10_monitor_balance.
