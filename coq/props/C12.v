(* C12 — split() yields the connected components, each behaving like the original. *)
From Coq Require Import List Arith Bool Relations.
From Lekkersim Require Import Field Matrix Base Network Solve SolveProofs SolveComplete Split SplitProofs NetSub.
Import ListNotations.

Section Partition.
(* structures are numbers, adj s = the structures s is connected to (symmetric, and only present
   structures are neighbours), structs = the declaration order — ANY order, ANY graph: trees,
   cycles, multiply linked pairs (adj is a relation between structures), isolated structures *)
Variable adj : nat -> list nat.
Variable structs : list nat.
Hypothesis adj_sym : forall s t, In t (adj s) -> In s (adj t).
Hypothesis adj_closed : forall s t, In s structs -> In t (adj s) -> In t structs.
Hypothesis structs_nodup : NoDup structs.

(* every structure appears in exactly one returned set; only structures appear *)
Theorem C12_split_partition :
  ForallOrdPairs (disjoint) (split_sets adj structs) /\
  (forall s, In s structs -> exists S, In S (split_sets adj structs) /\ In s S) /\
  (forall S x, In S (split_sets adj structs) -> In x S -> In x structs).
Proof. exact (split_partition adj structs adj_sym adj_closed structs_nodup). Qed.

(* two structures share a set exactly when a chain of connections links them *)
Theorem C12_split_connected s t :
  In s structs -> In t structs ->
  ((exists S, In S (split_sets adj structs) /\ In s S /\ In t S) <-> Reach adj s t).
Proof. exact (split_connected adj structs adj_sym adj_closed structs_nodup s t). Qed.
End Partition.

Section Behaves.
Variable K : cfield.
Hypothesis KL : cfield_laws K.
(* a part that no connection leaves, solved alone (any schedule), has for the pins it owns the
   coefficients of the original solver *)
Theorem C12_split_behaves (net : netlist K) keepc s1 s2 T Ts :
  closed_sel K net keepc -> solve net s1 = Ok T -> solve (subnet K net keepc) s2 = Ok Ts ->
  forall p q, In p (l_pins Ts) -> In q (l_pins Ts) -> In p (l_pins T) -> In q (l_pins T) ->
    feq K (coeff Ts p q) (coeff T p q).
Proof. exact (split_behaves K KL net keepc s1 s2 T Ts). Qed.
End Behaves.

Print Assumptions C12_split_partition.
Print Assumptions C12_split_connected.
Print Assumptions C12_split_behaves.

(* non-vacuity: a triangle plus an isolated node plus a pair, declared in a scrambled order *)
Definition adj_ex (s : nat) : list nat :=
  match s with 0 => [1; 2] | 1 => [0; 2] | 2 => [0; 1] | 4 => [5] | 5 => [4] | _ => [] end.
Example C12_example :
  map (fun S => List.length S) (split_sets adj_ex [5; 2; 3; 0; 4; 1]) = [1; 2; 3].
Proof. reflexivity. Qed.
