(* C11 — flatten() preserves the scattering matrix and every parameter's meaning. *)
From Coq Require Import List Arith QArith.
From Lekkersim Require Import Field Matrix Base Network Solve Hier HierProofs Params ParamsProofs Flatten FlattenProofs.
Import ListNotations.

Section Wiring.
Variable K : cfield.
Hypothesis KL : cfield_laws K.

(* the flattened solver contains no sub-solvers *)
Theorem C11_flatten_flat (c : circ K) :
  match flatten_c c with Leaf _ => True | Sub subs _ _ => forallb is_leaf subs = true end.
Proof. exact (flatten_flat K c). Qed.

(* it denotes the same single-level circuit ... *)
Theorem C11_flatten_inline (c : circ K) : inline (flatten_c c) = inline c.
Proof. exact (flatten_inline K c). Qed.

(* ... hence (C02) the hierarchy before and the solver after flatten both have the coefficients of
   any solve of that circuit: the matrix is unchanged, for any depth and any re-use *)
Theorem C11_flatten_same_matrix pick pick' (c : circ K) (R R' : lst K) sched (T : lst K) :
  hier_wf K c -> hier_wf K (flatten_c c) ->
  solve_hier pick c = Ok R -> solve_hier pick' (flatten_c c) = Ok R' ->
  solve (inline c) sched = Ok T ->
  (forall p q, In p (l_pins R) -> In q (l_pins R) -> feq K (coeff R p q) (coeff T p q)) /\
  (forall p q, In p (l_pins R') -> In q (l_pins R') -> feq K (coeff R' p q) (coeff T p q)).
Proof.
  intros W W' H H' HT. split.
  - exact (proj2 (hier_transparent K KL pick c R sched T W H HT)).
  - rewrite <- (flatten_inline K c) in HT.
    exact (proj2 (hier_transparent K KL pick' (flatten_c c) R' sched T W' H' HT)).
Qed.
End Wiring.

(* parameters: the renaming flatten installs on a lifted structure (composition of the sub-solver
   placement's renaming [st] with the structure's own renaming [low]) delivers under every
   parameter name k that is not itself introduced by one of the two renamings exactly what the two
   nested placements delivered — for every incoming assignment d, the empty one included.
   [hygienic]: the names introduced by the outer placement are used nowhere inside (finding F28
   records what happens otherwise). *)
Theorem C11_flatten_compose st low d k :
  hygienic st low -> ~ In k (news st) -> ~ In k (news low) ->
  pget k (rename_shield (compose_rmap st low) d)
  = pget k (rename_shield low (rename_shield st d)).
Proof. intros H. exact (flatten_compose st low H d k). Qed.

(* the table flatten() actually writes (Python dict update) is that composition when hygienic *)
Theorem C11_compose_dict_hygienic st low : hygienic st low -> compose_dict st low = compose_rmap st low.
Proof. exact (compose_dict_hygienic st low). Qed.

Print Assumptions C11_compose_dict_hygienic.
Print Assumptions C11_flatten_flat.
Print Assumptions C11_flatten_inline.
Print Assumptions C11_flatten_same_matrix.
Print Assumptions C11_flatten_compose.

(* non-vacuity: top name 13 -> middle 4; inside, one structure renamed 11 -> 4 (so it is shielded
   from the middle name 4), another uses 4 directly *)
Example C11_compose_example :
  compose_rmap [(13, 4)]%nat [(11, 4)]%nat = [(11, 4)]%nat /\ compose_rmap [(13, 4)]%nat [] = [(13, 4)]%nat /\
  compose_rmap [(13, 4)]%nat [(4, 2)]%nat = [(13, 2)]%nat.
Proof. repeat split. Qed.
