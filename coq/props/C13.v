(* C13 — modes are independent: expand_mode replicates, connect_all pairs like modes. *)
From Coq Require Import List Arith Bool String.
From Lekkersim Require Import Field Matrix Base Network Names Modes ModesProofs ModesCircuit.
Import ListNotations.

Section Expand.
Variable K : cfield.
Hypothesis KL : cfield_laws K.

(* the coefficient between (p, mode i) and (q, mode i') of the expanded matrix: the single-mode
   coefficient when i = i', zero otherwise — every matrix, every size, every number of modes *)
Theorem C13_expand_coeff N (S : mx K) i i' n n' : (n < N)%nat -> (n' < N)%nat ->
  expand_S N S (expand_idx N i n) (expand_idx N i' n') = if Nat.eqb i i' then S n n' else f0 K.
Proof. exact (expand_coeff K N S i i' n n'). Qed.

(* the pin index layout is a bijection onto 0 .. np*N-1 *)
Theorem C13_expand_idx_inj N i i' n n' : (n < N)%nat -> (n' < N)%nat ->
  expand_idx N i n = expand_idx N i' n' -> i = i' /\ n = n'.
Proof. exact (expand_idx_inj N i i' n n'). Qed.
Theorem C13_expand_idx_bound N np i n : (i < np)%nat -> (n < N)%nat -> (expand_idx N i n < np * N)%nat.
Proof. exact (expand_idx_bound N np i n). Qed.

(* the waves around an expanded block: each mode obeys the single-mode block's equations on its own
   pins, and that is all the expanded block demands — np independent copies *)
Theorem C13_expand_independent id np N (S : mx K) (a b : waves K) :
  Sem (lst_of_comp (exp_comp K id np N S)) a b <->
  forall i, (i < np)%nat ->
    Sem (lst_of_comp (base_comp K id N S)) (mode_view K N i a) (mode_view K N i b).
Proof. exact (expand_Sem K KL id np N S a b). Qed.
(* a whole circuit of expanded blocks, every link replicated per mode (what connect_all does for equal mode
   lists): its waves solve the network equations exactly when, for every mode, the waves seen on that mode solve the
   single-mode circuit — independent copies.  Any components (distinct ids), any links and exposures on valid pins. *)
Theorem C13_expanded_circuit_independent np (cs : list (comp K)) links ex (u a b : waves K) :
  NoDup (map (@c_id K) cs) ->
  (forall c, In c links -> valid K cs (fst c) /\ valid K cs (snd c)) ->
  (forall x, In x ex -> valid K cs x) ->
  (wave_solution (exp_net K np cs links ex) u a b <->
   forall i, (i < np)%nat -> wave_solution (base_net K cs links ex) (view K cs i u) (view K cs i a) (view K cs i b)).
Proof. intros H1 H2 H3. exact (expanded_circuit_independent K KL np cs links ex H1 H2 H3 u a b). Qed.
End Expand.

(* connect_all links exactly the common modes, each with its like-named partner *)
Theorem C13_connect_all_pairs b1 b2 modes1 modes2 p q :
  In (p, q) (connect_all_links b1 b2 modes1 modes2) <->
  exists m, In m modes1 /\ In m modes2 /\
            p = {| basename := b1; mode_name := Some m |} /\ q = {| basename := b2; mode_name := Some m |}.
Proof. exact (connect_all_pairs b1 b2 modes1 modes2 p q). Qed.

(* the queries return exactly the base names / modes / pins of the pins the object has *)
Theorem C13_queries_basenames pins b : In b (pin_basenames pins) <-> exists p, In p pins /\ basename p = b.
Proof. exact (queries_basenames pins b). Qed.
Theorem C13_queries_modes pins b m :
  In m (pin_modes b pins) <-> exists p, In p pins /\ basename p = b /\ mode_name p = m.
Proof. exact (queries_modes pins b m). Qed.
Theorem C13_queries_pins pins b p : In p (pins_of_base b pins) <-> In p pins /\ basename p = b.
Proof. exact (queries_pins pins b p). Qed.

Print Assumptions C13_expand_coeff.
Print Assumptions C13_expand_idx_inj.
Print Assumptions C13_expand_idx_bound.
Print Assumptions C13_expand_independent.
Print Assumptions C13_expanded_circuit_independent.
Print Assumptions C13_connect_all_pairs.
Print Assumptions C13_queries_basenames.
Print Assumptions C13_queries_modes.
Print Assumptions C13_queries_pins.

(* non-vacuity *)
Open Scope string_scope.
Example C13_example_links :
  connect_all_links "b0" "a0" ["te"; "tm"] ["tm"; "tz"] =
  [({| basename := "b0"; mode_name := Some "tm" |}, {| basename := "a0"; mode_name := Some "tm" |})].
Proof. reflexivity. Qed.
Example C13_example_idx : map (fun t => expand_idx 2 (fst t) (snd t)) [(0,0);(0,1);(1,0);(1,1);(2,0);(2,1)]%nat = [0;1;2;3;4;5]%nat.
Proof. reflexivity. Qed.
